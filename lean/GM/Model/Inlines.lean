/-
  GM.Model.Inlines — the inline phase of one block, part 1: the inline tree under construction, the text
  merge helpers (ast/inline.go:204-227), delimiter nodes and `ScanDelimiter` (parser/delimiter.go:27-151),
  the delimiter list of the parse context (parser/parser.go:291-349) and `ProcessDelimiters`
  (parser/delimiter.go:157-246) with the emphasis processor (parser/emphasis.go:8-22). Core Lean only.

  Representation. Go builds the inline content as a pointer tree below `parent`, threads the open `*Delimiter`
  nodes into a doubly linked list kept in the context (`delimiters`/`lastDelimiter`) and the open
  `*linkLabelState` nodes into a second list (context key `linkLabelStateKey`). Every node of either list is a
  direct child of `parent` while it is in its list (a delimiter is pushed when it is appended to `parent`;
  `ProcessDelimiters` moves only nodes strictly between a matched opener and closer, and takes every delimiter
  among them off the list; `processLinkLabel` moves the nodes behind the popped `[`, after all delimiters behind
  its bottom were cleared). The model therefore keeps ONE thing, the list of `parent`'s children in order, and
  reads both context lists off it: the delimiter list is the sub-list of `.delim` children, the label list the
  sub-list of `.label` children. Where the Go code would behave differently should that invariant break, the
  model answers `Panic.pre` ("modelling invariant violated") instead of guessing; the differential runs compare
  that answer with the real code, and the `…_noPre` theorems show it is not reachable.
  Delimiters carry an id (allocation order) because `linkBottom` stores *pointers* to them.
-/
import GM.Model.Reader

namespace GM.Inl
open GM GM.Text

/-- parser.Delimiter (delimiter.go:27-59); `Processor` is always the emphasis processor -/
structure Delim where
  seg : Segment
  canOpen : Bool
  canClose : Bool
  length : Int
  origLength : Int
  char : UInt8
  deriving Repr, DecidableEq

/-- an inline node: the public kinds the default parsers create plus the two bookkeeping kinds -/
inductive Node
  | text (seg : Segment) (soft hard raw : Bool)
  | codeSpan (kids : List Node)
  | emphasis (level : Int) (kids : List Node)
  | link (image : Bool) (dest : Bytes) (title : Option Bytes) (kids : List Node)
  | autoLink (email : Bool) (seg : Segment)
  | rawHTML (segs : List Segment)
  | delim (id : Nat) (d : Delim)
  | label (id : Nat) (seg : Segment) (isImage : Bool)
  deriving Repr

/-- an entry of the `linkBottom` stack / the `bottom` argument of ProcessDelimiters: an `ast.Node` interface
    value that is the nil interface, a nil `*Delimiter` wrapped in a non-nil interface (what
    `pc.Set(linkBottom, pc.LastDelimiter())` stores when there is no delimiter), or a delimiter -/
inductive Bottom
  | nil
  | tnil
  | id (n : Nat)
  deriving Repr, DecidableEq

/-- what the inline phase reads besides the block: the reference map (keys already normalised by
    `util.ToLinkReference`, first definition wins) and the Unicode classes of the non-ASCII runes of the source
    (`util.IsPunctRune`, `util.IsSpaceRune`) -/
structure Env where
  refs : List (Bytes × (Bytes × Option Bytes)) := []
  uc : List (Nat × (Bool × Bool)) := []
  escapedSpace : Bool := false

def textOf (s : Segment) : Node := .text s false false false
def rawTextOf (s : Segment) : Node := .text s false false true

def Node.isDelim : Node → Bool
  | .delim .. => true
  | _ => false

def Node.isLabel : Node → Bool
  | .label .. => true
  | _ => false

/-- `c == bottom` for a sibling `c` (a non-nil interface holding a real node) -/
def Node.isBottom (b : Bottom) : Node → Bool
  | .delim id _ => b == .id id
  | _ => false

/-! ### ast.MergeOrAppendTextSegment / MergeOrReplaceTextSegment (ast/inline.go:204-227) -/

/-- `MergeOrAppendTextSegment(parent, s)` on the child list. `MergeOrReplaceTextSegment(parent, n, s)` is the
    same function applied to the siblings in front of `n` (the node `n` itself disappears either way). -/
def mergeOrAppend (kids : List Node) (s : Segment) : List Node :=
  match kids.getLast? with
  | some (.text seg soft hard raw) =>
    if seg.stop == s.start && !soft then kids.dropLast ++ [.text (seg.withStop s.stop) soft hard raw]
    else kids ++ [textOf s]
  | _ => kids ++ [textOf s]

/-! ### ScanDelimiter (delimiter.go:114-151) -/

/-- util.IsPunctRune (`unicode.IsSymbol || unicode.IsPunct`): decided for ASCII, looked up otherwise -/
def isPunctRune (env : Env) (r : Nat) : Bool :=
  if r < 128 then isPunct (UInt8.ofNat r) else
    match env.uc.lookup r with
    | some (p, _) => p
    | none => false

/-- util.IsSpaceRune (`r <= 256 && IsSpace(byte(r)) || unicode.IsSpace(r)`) -/
def isSpaceRune (env : Env) (r : Nat) : Bool :=
  if r < 128 then r == 9 || r == 10 || r == 11 || r == 12 || r == 13 || r == 32 else
    match env.uc.lookup r with
    | some (_, s) => s
    | none => false

/-- util.ToRune(source, pos) for `pos < len(source)` (util.go:502-514) -/
def toRune (src : Bytes) (pos : Nat) : Nat :=
  match runeStartBack src (pos + 1) with
  | some i => (decodeRune (src.drop i)).1
  | none => runeError

/-- ScanDelimiter(line, before, 1, emphasisDelimiterProcessor); the `Segment` is filled in by the caller -/
def scanDelimiter (env : Env) (line : Bytes) (before : Nat) : Except Panic (Option Delim) :=
  match line with
  | [] => .error .index                                            -- `c := line[0]`
  | c :: rest =>
    if !(c == 42 || c == 95) then .ok none else
    let j := (rest.takeWhile (· == c)).length + 1
    let after : Nat := if j == line.length then 32 else toRune line j
    let bP := isPunctRune env before
    let bW := isSpaceRune env before
    let aP := isPunctRune env after
    let aW := isSpaceRune env after
    let isLeft := !aW && (!aP || bW || bP)
    let isRight := !bW && (!bP || aW || aP)
    let (canOpen, canClose) :=
      if c == 95 then (isLeft && (!isRight || bP), isRight && (!isLeft || aP)) else (isLeft, isRight)
    .ok (some { seg := { start := 0, stop := 0 }, canOpen := canOpen, canClose := canClose, length := j,
                origLength := j, char := c })

/-! ### Delimiter methods -/

/-- Delimiter.ConsumeCharacters (delimiter.go:80-83) -/
def Delim.consume (d : Delim) (n : Int) : Delim :=
  { d with length := d.length - n, seg := d.seg.withStop (d.seg.start + (d.length - n)) }

/-- Delimiter.CalcComsumption (delimiter.go:87-95); `d` is the opener -/
def Delim.calcConsumption (d closer : Delim) : Int :=
  if (d.canClose || closer.canOpen) && (d.origLength + closer.origLength).tmod 3 == 0 &&
      closer.origLength.tmod 3 != 0 then 0
  else if d.length ≥ 2 && closer.length ≥ 2 then 2
  else 1

/-! ### the context's delimiter list, read off the child list -/

/-- the first `.delim` child and what surrounds it -/
def splitFirstDelim : List Node → Option (List Node × Nat × Delim × List Node)
  | [] => none
  | .delim id d :: rest => some ([], id, d, rest)
  | n :: rest =>
    match splitFirstDelim rest with
    | some (pre, id, d, post) => some (n :: pre, id, d, post)
    | none => none

/-- the last `.delim` child and what surrounds it -/
def splitLastDelim (kids : List Node) : Option (List Node × Nat × Delim × List Node) :=
  match splitFirstDelim kids.reverse with
  | some (postR, id, d, preR) => some (preR.reverse, id, d, postR.reverse)
  | none => none

/-- RemoveDelimiter (parser.go:311-335) of a delimiter whose previous siblings are `pre`: the list surgery is
    implicit, the node becomes text (merged into a preceding adjacent Text) or vanishes when it is used up -/
def removeDelim (pre : List Node) (d : Delim) : List Node :=
  if d.length != 0 then mergeOrAppend pre d.seg else pre

/-- the loop `for c := opener.NextDelimiter; c != nil && c != closer; … pc.RemoveDelimiter(c)` (delimiter.go:
    226-230) on the nodes that were moved into the new emphasis node: left to right, `acc` = the children
    already passed -/
def clearInner : List Node → List Node → List Node
  | acc, [] => acc
  | acc, .delim _ d :: rest => clearInner (removeDelim acc d) rest
  | acc, n :: rest => clearInner (acc ++ [n]) rest

/-- ClearDelimiters(bottom) (parser.go:337-349), on the REVERSED list of the children up to and including
    `lastDelimiter`: walks `PreviousSibling` until `bottom`, removing every delimiter it meets (each one merges
    into the Text in front of it, i.e. the next element here, or is replaced by a fresh Text) -/
def clearRev (bottom : Bottom) : List Node → List Node
  | [] => []
  | .delim id d :: rest =>
    if bottom == .id id then .delim id d :: rest
    else if d.length != 0 then
      -- the walk goes on from the previous sibling either way; a Text in front is passed unchanged by the
      -- rest of the walk, so "merge into it, then go on" = "go on, then merge into the head of the result"
      let r := clearRev bottom rest
      match rest, r with
      | .text seg soft hard raw :: _, _ :: r' =>
        if seg.stop == d.seg.start && !soft then .text (seg.withStop d.seg.stop) soft hard raw :: r'
        else textOf d.seg :: r
      | _, _ => textOf d.seg :: r
    else clearRev bottom rest
  | n :: rest => n :: clearRev bottom rest

/-- ClearDelimiters(bottom) -/
def clearDelimiters (bottom : Bottom) (kids : List Node) : List Node :=
  match splitLastDelim kids with
  | none => kids
  | some (pre, id, d, post) => (clearRev bottom (.delim id d :: pre.reverse)).reverse ++ post

/-! ### ProcessDelimiters (delimiter.go:157-246) -/

/-- the opener search `for opener = closer.PreviousDelimiter; opener != nil && opener != bottom; …`
    (delimiter.go:190-199) over the reversed previous siblings: the matched opener (the siblings in front of it
    in order, its id and fields, the siblings between it and the closer in order, `consume`) and `maybeOpener` -/
def findOpener (bottom : Bottom) (closer : Delim) :
    List Node → List Node → Bool → Option (List Node × Nat × Delim × List Node × Int) × Bool
  | [], _, maybe => (none, maybe)
  | .delim id d :: restR, mid, maybe =>
    if bottom == .id id then (none, maybe)
    else if d.canOpen && d.char == closer.char then
      let consume := d.calcConsumption closer
      if consume > 0 then (some (restR.reverse, id, d, mid, consume), true)
      else findOpener bottom closer restR (.delim id d :: mid) true
    else findOpener bottom closer restR (.delim id d :: mid) maybe
  | n :: restR, mid, maybe => findOpener bottom closer restR (n :: mid) maybe

theorem splitFirstDelim_len {l pre post : List Node} {id : Nat} {d : Delim}
    (h : splitFirstDelim l = some (pre, id, d, post)) : post.length < l.length := by
  induction l generalizing pre id d post with
  | nil => simp [splitFirstDelim] at h
  | cons n rest ih =>
    cases n with
    | delim i dd => simp [splitFirstDelim] at h; obtain ⟨_, _, _, rfl⟩ := h; simp
    | _ =>
      simp only [splitFirstDelim] at h
      split at h
      · rename_i p i dd po heq
        simp at h; obtain ⟨_, _, _, rfl⟩ := h
        have := ih heq; simp; omega
      · simp at h

/-- one round of the `for closer != nil` loop: finished, next round, or a broken modelling invariant -/
inductive CStep
  | done (kids : List Node)
  | next (pre : List Node) (cid : Nat) (cd : Delim) (post : List Node)
  | bad

/-- `closer = closer.NextDelimiter` (then `continue`): `pre` = everything in front of `post` -/
def advanceCloser (pre post : List Node) : CStep :=
  match splitFirstDelim post with
  | none => .done (pre ++ post)
  | some (mid, nid, nd, post') => .next (pre ++ mid) nid nd post'

/-- one round of the `for closer != nil` loop (delimiter.go:183-243) as a zipper: `pre` = the siblings in front
    of the current closer, `post` = those behind it. A delimiter of non-positive length on the list would make
    the Go loop spin or misbehave; the model answers `bad` (never reached: every listed delimiter has
    `Length ≥ 1`, and a match consumes 1 or 2). -/
def closerStep (bottom : Bottom) (pre : List Node) (cid : Nat) (cd : Delim) (post : List Node) : CStep :=
  if cd.length < 1 then .bad else
  if !cd.canClose then advanceCloser (pre ++ [.delim cid cd]) post
  else
    match findOpener bottom cd pre.reverse [] false with
    | (none, maybeOpener) =>
      advanceCloser (if !maybeOpener && !cd.canOpen then removeDelim pre cd else pre ++ [.delim cid cd]) post
    | (some (p1, oid, od, mid, consume), _) =>
      if consume < 1 then .bad else
      let od' := od.consume consume
      let cd' := cd.consume consume
      let node := Node.emphasis consume (clearInner [] mid)
      let pre' := (if od'.length == 0 then p1 else p1 ++ [.delim oid od']) ++ [node]
      if cd'.length == 0 then advanceCloser pre' post
      else .next pre' cid cd' post

theorem advanceCloser_dec {pre post pre' post' : List Node} {cid : Nat} {cd : Delim}
    (h : advanceCloser pre post = .next pre' cid cd post') : post'.length < post.length := by
  unfold advanceCloser at h
  split at h
  · simp at h
  · rename_i heq
    simp at h; obtain ⟨_, _, _, rfl⟩ := h
    exact splitFirstDelim_len heq

/-- a closer is dropped (`post` shrinks) or loses at least one character per round -/
theorem closerStep_dec {bottom : Bottom} {pre post pre' post' : List Node} {cid cid' : Nat} {cd cd' : Delim}
    (h : closerStep bottom pre cid cd post = .next pre' cid' cd' post') :
    Prod.Lex (· < ·) (· < ·) (post'.length, cd'.length.toNat) (post.length, cd.length.toNat) := by
  unfold closerStep at h
  split at h
  · simp at h
  · split at h
    · exact Prod.Lex.left _ _ (advanceCloser_dec h)
    · split at h
      · exact Prod.Lex.left _ _ (advanceCloser_dec h)
      · split at h
        · simp at h
        · simp only at h
          split at h
          · exact Prod.Lex.left _ _ (advanceCloser_dec h)
          · simp at h
            obtain ⟨_, _, rfl, rfl⟩ := h
            apply Prod.Lex.right
            simp only [Delim.consume]
            omega

/-- the `for closer != nil` loop (delimiter.go:183-243) -/
def closerLoop (bottom : Bottom) (pre : List Node) (cid : Nat) (cd : Delim) (post : List Node) :
    Except Panic (List Node) :=
  match h : closerStep bottom pre cid cd post with
  | .done kids => .ok kids
  | .bad => .error .pre
  | .next pre' cid' cd' post' => closerLoop bottom pre' cid' cd' post'
termination_by (post.length, cd.length.toNat)
decreasing_by exact closerStep_dec h

/-- the search for the first closer when `bottom` is a non-nil interface (delimiter.go:164-174):
    `for c := lastDelimiter.PreviousSibling(); c != nil && c != bottom; …` keeps the left-most delimiter met.
    `preR` = the siblings in front of `lastDelimiter`, reversed. -/
def firstCloserAfter (bottom : Bottom) : List Node → Option Nat → Option Nat
  | [], acc => acc
  | .delim id _ :: rest, acc => if bottom == .id id then acc else firstCloserAfter bottom rest (some id)
  | _ :: rest, acc => firstCloserAfter bottom rest acc

/-- split at the top-level delimiter with the given id -/
def splitAtDelim (id : Nat) : List Node → Option (List Node × Delim × List Node)
  | [] => none
  | .delim i d :: rest =>
    if i == id then some ([], d, rest) else
      match splitAtDelim id rest with
      | some (pre, dd, post) => some (.delim i d :: pre, dd, post)
      | none => none
  | n :: rest =>
    match splitAtDelim id rest with
    | some (pre, dd, post) => some (n :: pre, dd, post)
    | none => none

/-- ProcessDelimiters(bottom, pc) on `parent`'s children -/
def processDelimiters (bottom : Bottom) (kids : List Node) : Except Panic (List Node) :=
  match splitLastDelim kids with
  | none => .ok kids                                                -- `lastDelimiter == nil`
  | some (preL, lastId, _, _) =>
    let closer : Option Nat :=
      match bottom with
      | .nil => (splitFirstDelim kids).map (·.2.1)                  -- `pc.FirstDelimiter()`
      | b => if b == .id lastId then none else firstCloserAfter b preL.reverse none
    match closer with
    | none => .ok (clearDelimiters bottom kids)
    | some cid =>
      match splitAtDelim cid kids with
      | none => .error .pre
      | some (pre, cd, post) =>
        match closerLoop bottom pre cid cd post with
        | .ok kids' => .ok (clearDelimiters bottom kids')
        | .error e => .error e

end GM.Inl
