/-
  GM.Model.AstTrace — replaying the mutator-call trace of a real Parse on the pointer heap of
  GM.Model.AstHeap, with the proviso of C13 (`GM.Spec.Forest.Pre`) CHECKED before every call
  (property C05 (a): the tie between the parser and the C13 refinement theorem).

  * `descB h c fuel p` decides "c is p or an ancestor of p" by walking the Parent() chain of the heap
    (what a Go caller could do with the public accessors); running out of fuel is the distinct answer
    `none` (it would mean a parent chain longer than the number of nodes, i.e. a cycle).
  * `preCheck` / `preB` lift it to one API call: the decidable form of `Pre`.
  * `runChecked` replays a call list: before each call `preCheck`, then `AstHeap.step`.
  * `compact` re-tabulates the six field functions into arrays. It is the identity on heaps
    (`GM.Proof.AstTrace.compact_eq`); the replay applies it every 32 calls so that a field read does not
    walk through one closure per earlier write (traces of long documents have thousands of writes).
  Core Lean only.
-/
import GM.Model.AstHeap

namespace GM.AstTrace
open GM.Spec GM.AstHeap
open GM.Spec.Forest (Op)

/-- is `c` equal to `p` or one of `p`'s ancestors?  `none` = the parent chain did not end within `fuel` steps -/
def descB (h : Heap) (c : Nat) : Nat → Nat → Option Bool
  | 0, _ => none
  | fuel + 1, p =>
    if p = c then some true
    else match h.parent p with
      | none => some false
      | some q => descB h c fuel q

inductive PreRes where
  | ok         -- the call is within the proviso
  | violated   -- the call is outside the proviso
  | fuel       -- undecided: parent chain longer than the fuel
deriving DecidableEq, Repr

/-- "the inserted node `c` is not the target parent `p` nor one of its ancestors, and `side` holds" -/
def preInsert (fuel : Nat) (h : Heap) (p c : Nat) (side : Bool) : PreRes :=
  match descB h c fuel p with
  | none => .fuel
  | some true => .violated
  | some false => if side then .ok else .violated

/-- the proviso of C13 for one call, decided on the heap -/
def preCheck (fuel : Nat) (h : Heap) : Op → PreRes
  | .append p (some c) => preInsert fuel h p c true
  | .insertBefore p v (some c) => preInsert fuel h p c (v != some c)
  | .insertAfter p v (some c) => preInsert fuel h p c (v != some c)
  | .replace p (some v) (some c) => preInsert fuel h p c (v != c)
  | .remove _ (some _) => .ok
  | .removeChildren _ => .ok
  | .sort _ _ => .ok
  | _ => .violated      -- nil child, or nil node to replace: Go dereferences nil

def preB (fuel : Nat) (h : Heap) (op : Op) : Bool := preCheck fuel h op == .ok

/-! ### re-tabulation (identity on heaps) -/

/-- table lookup with the function itself as the fallback outside the table -/
@[noinline] def tabGet {α : Type} (a : Array α) (f : Nat → α) (i : Nat) : α :=
  match a[i]? with
  | some v => v
  | none => f i

/-- the first `n` values of `f` -/
def tabulate {α : Type} (n : Nat) (f : Nat → α) : Array α := Array.ofFn (n := n) (fun i => f i.val)

/-- every field function replaced by a table lookup. The six arrays are built HERE, once (`compact`
    returns a structure, so the compiler does not turn it into a function that rebuilds them at every
    lookup, which is what happens to a definition whose result type is a function). -/
def compact (n : Nat) (h : Heap) : Heap :=
  let pa := tabulate n h.parent
  let fa := tabulate n h.first
  let la := tabulate n h.last
  let na := tabulate n h.next
  let va := tabulate n h.prev
  let ca := tabulate n h.count
  ⟨tabGet pa h.parent, tabGet fa h.first, tabGet la h.last, tabGet na h.next, tabGet va h.prev, tabGet ca h.count⟩

/-! ### checked replay -/

inductive Outcome where
  | ok (h : Heap)
  | preViolated (k : Nat)     -- call number k (from 0) is outside the proviso
  | preFuel (k : Nat)         -- the check of call k ran out of fuel
  | fault (k : Nat) (e : Fault)   -- call k panicked / looped in the model

def Outcome.isOk : Outcome → Bool
  | .ok _ => true
  | _ => false

/-- replay `ops` from call number `k` on; `n` = number of allocated nodes (only used by `compact`) -/
def runChecked (n fuel : Nat) : Nat → Heap → List Op → Outcome
  | _, h, [] => .ok h
  | k, h, op :: ops =>
    match preCheck fuel h op with
    | .violated => .preViolated k
    | .fuel => .preFuel k
    | .ok =>
      match step fuel h op with
      | .error e => .fault k e
      | .ok h' => runChecked n fuel (k + 1) (if (k + 1) % 32 = 0 then compact n h' else h') ops

/-! ### the part of the heap reachable from a root, in depth-first order -/

/-- follow `nx` from `start`, at most `fuel` nodes; the flag says the chain was cut -/
def chain (nx : Nat → Option Nat) : Nat → Option Nat → List Nat × Bool
  | _, none => ([], false)
  | 0, some _ => ([], true)
  | fuel + 1, some c => let r := chain nx fuel (nx c); (c :: r.1, r.2)

/-- nodes in depth-first preorder from the stack; at most `fuel` nodes, the flag says the walk was cut -/
def reach (h : Heap) (n : Nat) : Nat → List Nat → List Nat × Bool
  | _, [] => ([], false)
  | 0, _ :: _ => ([], true)
  | fuel + 1, x :: stack =>
    let r := reach h n fuel ((chain h.next (n + 1) (h.first x)).1 ++ stack)
    (x :: r.1, r.2)

end GM.AstTrace
