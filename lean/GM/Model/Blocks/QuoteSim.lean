/-
  GM.Model.Blocks.QuoteSim — the C08 statement AT THE BLOCK-TREE LEVEL as an executable check: for a tab- and
  CR-free, non-blank source, the block tree of the source with `"> "` put in front of every line is a Document
  with exactly one Blockquote whose children are the children of the original Document, every segment moved
  by the marker bytes in front of it. Core Lean only.
-/
import GM.Model.Blocks.Driver

namespace GM.Blocks
open GM GM.Text

/-- put `"> "` in front of every line (a final line without `\n` included; nothing after a final `\n`) -/
def quotePrefixGo : Bytes → Bool → Bytes
  | [], _ => []
  | c :: cs, atStart => (if atStart then [62, 32] else []) ++ c :: quotePrefixGo cs (c == 10)

def quotePrefix (src : Bytes) : Bytes := quotePrefixGo src true

/-- number of `\n` before byte `p` = 0-based line number of byte `p` -/
def lineNo (src : Bytes) (p : Nat) : Nat := ((src.take p).filter (· == 10)).length

/-- where byte `p` of the source is in the prefixed source -/
def shiftPos (src : Bytes) (p : Nat) : Int := p + 2 * (lineNo src p + 1)

/-- a segment lies within one line; its stop may be the byte after the line's `\n` -/
def shiftSeg (src : Bytes) (s : Segment) : Segment :=
  let d : Int := 2 * (lineNo src s.start.toNat + 1)
  { s with start := s.start + d, stop := s.stop + d }

mutual
  def Tree.mapSegs (f : Segment → Segment) : Tree → Tree
    | .node n cs =>
      .node { n with lines := n.lines.map f, info := n.info.map f,
                     closure := if n.closure.start < 0 then n.closure else f n.closure }
        (Tree.mapSegsL f cs)
  def Tree.mapSegsL (f : Segment → Segment) : List Tree → List Tree
    | [] => []
    | t :: ts => t.mapSegs f :: Tree.mapSegsL f ts
end

mutual
  /-- forget `HasBlankPreviousLines` where the block phase never reads it: it is read (list.go:250-264) for
      the list items of a list except the first and for the children of a list item except the first; every
      other node's flag is set to `false`. `keep` = this node's flag is one of those read. -/
  def Tree.readBlank (keep : Bool) : Tree → Tree
    | .node n cs =>
      .node { n with blankPrev := keep && n.blankPrev }
        (Tree.readBlankL (n.kind == .list || n.kind == .listItem) true cs)
  def Tree.readBlankL (inList first : Bool) : List Tree → List Tree
    | [] => []
    | t :: ts => t.readBlank (inList && !first) :: Tree.readBlankL inList false ts
end

/-- `none` = the statement does not apply (a tab or CR in the source, or a blank document);
    `some (expected, got)` = the two canonical dumps the statement says are equal -/
def quoteSimPair (src : Bytes) : Option (String × String) :=
  if src.any (fun c => c == 9 || c == 13) || isBlank src then none
  else
    match run src with
    | .error e => some ("orig:" ++ e.str, "")
    | .ok s =>
      match treeOf s.nodes s.nodes.length 0 with
      | .node d kids =>
        let q : Node := { kind := .blockquote }
        let expected := ((Tree.node d [Tree.node q (Tree.mapSegsL (shiftSeg src) kids)]).readBlank false).str
        match run (quotePrefix src) with
        | .error e => some (expected, "prefixed:" ++ e.str)
        | .ok s' => some (expected, ((treeOf s'.nodes s'.nodes.length 0).readBlank false).str)

/-- `ok` / `n-a` / `fail …` -/
def quoteSim (src : Bytes) : String :=
  match quoteSimPair src with
  | none => "n-a"
  | some (e, g) => if e == g then "ok" else "fail:quote-prefix-tree " ++ e ++ " <> " ++ g

end GM.Blocks
