/-
  GM.Model.Blocks.Leaf — the leaf block parsers of goldmark, statement by statement:
  paragraph.go, thematic_break.go, atx_heading.go (the parser built by DefaultBlockParsers: no Attribute,
  no AutoHeadingID option), setext_headings.go (same), code_block.go, fcode_block.go. Core Lean only.
-/
import GM.Model.Blocks.Basic

namespace GM.Blocks
open GM GM.Text

/-- parser.State (parser.go:403-425) as the three bits the driver tests (`Continue`, `HasChildren`,
    `RequireParagraph`); `Close` and `NoChildren` are the absence of the first two. -/
structure PState where
  cont : Bool := false
  hasChildren : Bool := false
  requirePara : Bool := false
  deriving DecidableEq, Repr, Inhabited

def stNoChildren : PState := {}
def stHasChildren : PState := { hasChildren := true }
def stClose : PState := {}
def stContinueNoChildren : PState := { cont := true }
def stContinueHasChildren : PState := { cont := true, hasChildren := true }

/-! ### paragraph.go -/

/-- paragraphParser.Open (paragraph.go:24-34) -/
def paragraphOpen (_parent : Nat) : M (Option Nat × PState) := do
  let (_, segment) ← peekLine
  let segment ← liftE (segment.trimLeftSpace (← source))
  if segment.isEmpty then return (none, stNoChildren)
  let node ← newNode { kind := .paragraph }
  appendLine node segment
  advance (segment.len - 1)
  return (some node, stNoChildren)

/-- paragraphParser.Continue (paragraph.go:36-44) -/
def paragraphContinue (node : Nat) : M PState := do
  let (line, segment) ← peekLine
  if isBlank (line.getD []) then return stClose
  appendLine node segment
  advance (segment.len - 1)
  return stContinueNoChildren

/-- the loop paragraph.go:50-53 over the line indices `i, i+1, …` -/
def trimLeftAll (src : Bytes) : List Segment → Except Panic (List Segment)
  | [] => pure []
  | l :: ls => do
    let l' ← l.trimLeftSpace src
    let ls' ← trimLeftAll src ls
    pure (l' :: ls')

/-- paragraphParser.Close (paragraph.go:46-64) -/
def paragraphClose (node : Nat) : M Unit := do
  let n ← getNode node
  let src ← source
  if n.lines.length != 0 then
    let ls ← liftE (trimLeftAll src n.lines)
    let length : Int := ls.length
    let lastLine ← liftE (lineAt ls (length - 1))
    let lastLine ← liftE (lastLine.trimRightSpace src)
    let ls ← liftE (lineSet ls (length - 1) lastLine)
    modNode node fun n => { n with lines := ls }
  let n ← getNode node
  if n.lines.length == 0 then
    match n.parent with
    | none => throw .nil                     -- node.Parent().RemoveChild on a nil interface
    | some p => removeChild p node

/-! ### thematic_break.go -/

/-- the loop thematic_break.go:29-45; `mark = 0` is "no marker yet" -/
def tbLoop : Bytes → UInt8 → Nat → Bool
  | [], _, count => count > 2
  | c :: cs, mark, count =>
    if isSpace c then tbLoop cs mark count
    else if mark == 0 then
      (if c == 42 || c == 45 || c == 95 then tbLoop cs c 1 else false)
    else if c != mark then false
    else tbLoop cs mark (count + 1)

/-- parser.isThematicBreak (thematic_break.go:21-47) -/
def isThematicBreak (line : Bytes) (offset : Int) : Bool :=
  let r := indentWidthI line offset
  if r.1 > 3 then false else tbLoop (line.drop r.2.toNat) 0 0

/-- thematicBreakPraser.Open (thematic_break.go:53-60) -/
def thematicOpen (_parent : Nat) : M (Option Nat × PState) := do
  let (line, segment) ← peekLine
  let off ← lineOffset
  if isThematicBreak (line.getD []) off then
    advance (segment.len - 1)
    let node ← newNode { kind := .thematicBreak }
    return (some node, stNoChildren)
  return (none, stNoChildren)

/-! ### atx_heading.go (Attribute = AutoHeadingID = false) -/

/-- `for ; line[i] == '#' && i >= start; i-- {}` (atx_heading.go:153-154) with the loop variable given as
    `k = i + 1`: the final `i`, or the index panic of `line[i]` (evaluated before `i >= start`). -/
def atxBackLoop (line : Bytes) (start : Int) : Nat → Except Panic Int
  | 0 => .error .index                       -- line[-1]
  | k + 1 => do
    let c ← idx line (k : Int)
    if c == 35 && (k : Int) ≥ start then atxBackLoop line start k else pure (k : Int)

/-- atxHeadingParser.Open (atx_heading.go:82-166) -/
def atxOpen (_parent : Nat) : M (Option Nat × PState) := do
  let (line, segment) ← peekLine
  let pos := (← getPc).blockOffset
  if pos < 0 then return (none, stNoChildren)
  let line := line.getD []
  let len : Int := line.length
  let i := scanWhileEq line 35 pos
  let level := i - pos
  if i == pos || level > 6 then return (none, stNoChildren)
  if i == len then
    let node ← newNode { kind := .heading, level := level }
    return (some node, stNoChildren)
  let l : Int := trimLeftSpaceLength (← liftE (sliceFrom line i))
  if l == 0 then return (none, stNoChildren)
  let start := if i + l ≥ len then len - 1 else i + l
  let node ← newNode { kind := .heading, level := level }
  let stop0 := len - trimRightSpaceLength line
  let stop ←
    if stop0 ≤ start then pure start
    else do
      let i ← liftE (atxBackLoop line start stop0.toNat)
      let c ← liftE (idx line i)
      let i := if i != stop0 - 1 && !isSpace c then stop0 - 1 else i
      pure (i + 1)
  let body ← liftE (slice line start stop)
  if ((body.reverse.dropWhile (· == 35)).length != 0) then
    appendLine node { start := segment.start + start - segment.padding, stop := segment.start + stop - segment.padding }
  return (some node, stNoChildren)

/-! ### setext_headings.go -/

/-- parser.matchesSetextHeadingBar (setext_headings.go:15-40): (char, ok) -/
def matchesSetextHeadingBar (line : Bytes) : Except Panic (UInt8 × Bool) := do
  let len : Int := line.length
  let space : Int := countLeading 32 line
  if space > 3 then return (0, false)
  let start := space
  let rest ← slice line start len
  let level1 : Int := countLeading 61 rest
  let c : UInt8 := if level1 == 0 then 45 else 61
  let level2 : Int := if level1 == 0 then countLeading 45 rest else 0
  let last ← idx line (len - 1)
  let stop := if isSpace last then len - trimRightSpaceLength rest else len
  if !((level1 > 0 && start + level1 == stop) || (level2 > 0 && start + level2 == stop)) then
    return (0, false)
  return (c, true)

/-- setextHeadingParser.Open (setext_headings.go:55-76) -/
def setextOpen (parent : Nat) : M (Option Nat × PState) := do
  match ← lastOpenedBlock with
  | none => return (none, stNoChildren)
  | some lb =>
    let last := lb.node
    let ln ← getNode last
    if ln.kind != .paragraph || ln.parent != some parent then return (none, stNoChildren)
    let (line, segment) ← peekLine
    let (c, ok) ← liftE (matchesSetextHeadingBar (line.getD []))
    if !ok then return (none, stNoChildren)
    let level : Int := if c == 45 then 2 else 1
    let node ← newNode { kind := .heading, level := level }
    appendLine node segment
    modPc fun pc => { pc with tmpPara := some last }
    return (some node, { requirePara := true })

/-- setextHeadingParser.Close (setext_headings.go:82-118) -/
def setextClose (node : Nat) : M Unit := do
  let hn ← getNode node
  let segment ← liftE (lineAt hn.lines 0)
  modNode node fun n => { n with lines := [], linesNil := true }
  let tmp ← match (← getPc).tmpPara with
    | some t => pure t
    | none => throw .assert                  -- pc.Get(temporaryParagraphKey).(*ast.Paragraph) on nil
  modPc fun pc => { pc with tmpPara := none }
  let tn ← getNode tmp
  if tn.lines.length == 0 then
    let next ← nextSibling node
    let segment ← liftE (segment.trimLeftSpace (← source))
    let hp ← match (← getNode node).parent with
      | some p => pure p
      | none => throw .nil
    let nextIsPara ← match next with
      | none => pure false
      | some nx => do pure ((← getNode nx).kind == .paragraph)
    if !nextIsPara then
      let para ← newNode { kind := .paragraph }
      appendLine para segment
      insertAfter hp (some node) para
    else
      match next with
      | none => pure ()
      | some nx =>
        let nn ← getNode nx
        -- Segments.Unshift: `append(s.values[0:1], s.values[0:]...)` needs cap ≥ 1
        if nn.linesNil then throw .slice
        modNode nx fun n => { n with lines := segment :: n.lines }
    removeChild hp node
  else
    modNode node fun n => { n with lines := tn.lines, linesNil := tn.linesNil, blankPrev := tn.blankPrev }
    match tn.parent with
    | some tp => removeChild tp tmp
    | none => pure ()

/-! ### code_block.go -/

/-- preserveLeadingTabInCodeBlock (code_block.go:93-102): the segment afterwards -/
def preserveLeadingTab (segment : Segment) (indent : Int) : M Segment := do
  let offsetWithPadding := (← lineOffset) + indent
  let (sl, ss) ← position
  setPosition sl { start := ss.start - 1, stop := ss.stop }
  let lo ← lineOffset
  let segment := if offsetWithPadding == lo then { segment with padding := 0, start := segment.start - 1 } else segment
  setPosition sl ss
  return segment

/-- the common tail of codeBlockParser.Open / Continue (code_block.go:33-43, 59-70) -/
def codeTakeLine (node : Nat) (pos padding : Int) : M Unit := do
  advanceAndSetPadding pos padding
  let (_, segment) ← peekLine
  let segment ← if segment.padding != 0 then preserveLeadingTab segment 0 else pure segment
  let segment := { segment with forceNewline := true }
  appendLine node segment
  advance (segment.len - 1)

/-- codeBlockParser.Open (code_block.go:25-44) -/
def codeOpen (_parent : Nat) : M (Option Nat × PState) := do
  let (line, _) ← peekLine
  let line := line.getD []
  let (pos, padding) := indentPosition line (← lineOffset) 4
  if pos < 0 || isBlank line then return (none, stNoChildren)
  let node ← newNode { kind := .codeBlock }
  codeTakeLine node pos padding
  return (some node, stNoChildren)

/-- codeBlockParser.Continue (code_block.go:46-71) -/
def codeContinue (node : Nat) : M PState := do
  let (line, segment) ← peekLine
  let line := line.getD []
  if isBlank line then
    let seg ← liftE (segment.trimLeftSpaceWidth 4 (← source))
    appendLine node seg
    return stContinueNoChildren
  let (pos, padding) := indentPosition line (← lineOffset) 4
  if pos < 0 then return stClose
  codeTakeLine node pos padding
  return stContinueNoChildren

/-- the loop code_block.go:78-85: the final `length` (index of the last non-blank line, or -1) -/
def codeTrimLoop (src : Bytes) (ls : List Segment) : Nat → Except Panic Int
  | 0 => pure (-1)
  | k + 1 => do
    let line ← lineAt ls (k : Int)
    let v ← line.value src
    if isBlank v then codeTrimLoop src ls k else pure (k : Int)

/-- codeBlockParser.Close (code_block.go:73-87) -/
def codeClose (node : Nat) : M Unit := do
  let n ← getNode node
  let length ← liftE (codeTrimLoop (← source) n.lines n.lines.length)
  -- lines.SetSliced(0, length+1): on nil `values` only [0:0] is legal
  if n.linesNil && length + 1 != 0 then throw .slice
  modNode node fun n => { n with lines := n.lines.take (length + 1).toNat }

/-! ### fcode_block.go -/

/-- fencedCodeBlockParser.Open (fcode_block.go:35-69) -/
def fencedOpen (_parent : Nat) : M (Option Nat × PState) := do
  let (line, segment) ← peekLine
  let line := line.getD []
  let len : Int := line.length
  let pos := (← getPc).blockOffset
  if pos < 0 then return (none, stNoChildren)
  let fenceChar ← liftE (idx line pos)
  if fenceChar != 96 && fenceChar != 126 then return (none, stNoChildren)
  let findent := pos
  let i := scanWhileEq line fenceChar pos
  let oFenceLength := i - pos
  if oFenceLength < 3 then return (none, stNoChildren)
  let mut info : Option Segment := none
  if i < len - 1 then
    let rest ← liftE (sliceFrom line i)
    let left : Int := trimLeftSpaceLength rest
    let right : Int := trimRightSpaceLength rest
    let rlen : Int := rest.length
    if left < rlen - right then
      let infoStart := segment.start - segment.padding + i + left
      let infoStop := segment.stop - right
      let value ← liftE (slice rest left (rlen - right))
      if fenceChar == 96 && value.contains 96 then return (none, stNoChildren)
      else if infoStart != infoStop then
        info := some { start := infoStart, stop := infoStop }
  let node ← newNode { kind := .fencedCodeBlock, info := info }
  modPc fun pc => { pc with fence := some { char := fenceChar, indent := findent, length := oFenceLength, node := node } }
  return (some node, stNoChildren)

/-- fencedCodeBlockParser.Continue (fcode_block.go:71-107) -/
def fencedContinue (node : Nat) : M PState := do
  let (line, segment) ← peekLine
  let line := line.getD []
  let len : Int := line.length
  let fdata ← match (← getPc).fence with
    | some f => pure f
    | none => throw .assert                  -- pc.Get(fencedCodeBlockInfoKey).(*fenceData) on nil
  let lo ← lineOffset
  let (w, pos) := indentWidthI line lo
  if w < 4 then
    let i := scanWhileEq line fdata.char pos
    let length := i - pos
    if length ≥ fdata.length then
      if isBlank (← liftE (sliceFrom line i)) then
        let last ← liftE (idx line (len - 1))
        let newline : Int := if last != 10 then 0 else 1
        advance (segment.stop - segment.start - newline + segment.padding)
        return stClose
  let (pos, padding) := indentPositionPadding line lo segment.padding fdata.indent
  let (pos, padding) :=
    if pos < 0 then
      let p := firstNonSpacePos line - segment.padding    -- since 52dc664: the peeked line starts with the virtual padding
      ((if p < 0 then 0 else p), (0 : Int))
    else (pos, padding)
  let seg : Segment := { start := segment.start + pos, stop := segment.stop, padding := padding }
  let seg ← if padding != 0 then preserveLeadingTab seg fdata.indent else pure seg
  let seg := { seg with forceNewline := true }
  appendLine node seg
  advanceAndSetPadding (segment.stop - segment.start - pos - 1) padding
  return stContinueNoChildren

/-- fencedCodeBlockParser.Close (fcode_block.go:109-114) -/
def fencedClose (node : Nat) : M Unit := do
  match (← getPc).fence with
  | none => throw .assert
  | some f => if f.node == node then modPc fun pc => { pc with fence := none }

end GM.Blocks
