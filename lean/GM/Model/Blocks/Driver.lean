/-
  GM.Model.Blocks.Driver — parser/parser.go: `closeBlocks` (900-918), `openBlocks` (928-1024),
  `isBlankLine` (1032-1049), `parseBlocks` (1051-1128) for the parser built by
  `parser.NewParser(parser.WithBlockParsers(parser.DefaultBlockParsers()...))` (no paragraph transformers:
  `transformParagraph` is the empty loop and returns false). Core Lean only.

  Slices. `pc.openedBlocks` is modelled by its contents (a list). The one place where the Go code reads a
  stale slice header — `openedBlocks[lastIndex].Node != lastNode` (parser.go:1117) after `openBlocks` may
  have truncated and re-appended — is modelled by `slotAfter`: all truncations inside one `openBlocks`
  call happen before the first append (a truncation needs the last opened block to be the paragraph /
  a node without parent; after an append the last opened block is the freshly appended node), a
  truncated length is < the old length ≤ cap, so the appends that refill slots below the old length
  write into the array the stale header still points to.
-/
import GM.Model.Blocks.List
import GM.Model.Blocks.Html

namespace GM.Blocks
open GM GM.Text

/-! ### dispatch -/

def bpOpen : BP → Nat → M (Option Nat × PState)
  | .setext => setextOpen | .thematic => thematicOpen | .list => listOpen | .listItem => listItemOpen
  | .code => codeOpen | .atx => atxOpen | .fenced => fencedOpen | .blockquote => blockquoteOpen
  | .html => htmlOpen | .paragraph => paragraphOpen

def bpContinue : BP → Nat → M PState
  | .setext => fun _ => pure stClose | .thematic => fun _ => pure stClose | .list => listContinue
  | .listItem => listItemContinue | .code => codeContinue | .atx => fun _ => pure stClose
  | .fenced => fencedContinue | .blockquote => blockquoteContinue | .html => htmlContinue
  | .paragraph => paragraphContinue

def bpClose : BP → Nat → M Unit
  | .setext => setextClose | .thematic => fun _ => pure () | .list => listClose | .listItem => fun _ => pure ()
  | .code => codeClose | .atx => fun _ => pure () | .fenced => fencedClose | .blockquote => fun _ => pure ()
  | .html => fun _ => pure () | .paragraph => paragraphClose

def BP.canInterruptParagraph : BP → Bool
  | .paragraph => false | .code => false | _ => true

def BP.canAcceptIndentedLine : BP → Bool
  | .code => true | _ => false

/-- `p.freeBlockParsers` (Trigger() == nil), in priority order -/
def freeParsers : List BP := [.code, .paragraph]

/-- `p.blockParsers[c]` after parser.go:842-850 for DefaultBlockParsers: the parsers triggered by `c` in
    priority order followed by the free ones; `none` = nil entry -/
def triggered (c : UInt8) : Option (List BP) :=
  if c == 45 then some ([.setext, .thematic, .list, .listItem] ++ freeParsers)            -- '-'
  else if c == 61 then some ([.setext] ++ freeParsers)                                     -- '='
  else if c == 42 then some ([.thematic, .list, .listItem] ++ freeParsers)                 -- '*'
  else if c == 95 then some ([.thematic] ++ freeParsers)                                   -- '_'
  else if c == 43 || isNumeric c then some ([.list, .listItem] ++ freeParsers)             -- '+', digits
  else if c == 35 then some ([.atx] ++ freeParsers)                                        -- '#'
  else if c == 126 || c == 96 then some ([.fenced] ++ freeParsers)                         -- '~', '`'
  else if c == 62 then some ([.blockquote] ++ freeParsers)                                 -- '>'
  else if c == 60 then some ([.html] ++ freeParsers)                                       -- '<'
  else none

/-! ### closeBlocks -/

/-- `blocks[i]` -/
def blockAt (blocks : List Block) (i : Int) : Except Panic Block :=
  if i < 0 then .error .index else
    match blocks[i.toNat]? with
    | some b => .ok b
    | none => .error .index

/-- the loop parser.go:902-911 for `i = to + k - 1` down to `to` -/
def closeLoop (blocks : List Block) (to : Int) : Nat → M Unit
  | 0 => pure ()
  | k + 1 => do
    let b ← liftE (blockAt blocks (to + k))
    -- transformParagraph: no paragraph transformers
    if (← getNode b.node).parent.isSome then bpClose b.bp b.node
    closeLoop blocks to k

/-- parser.closeBlocks (parser.go:900-918) -/
def closeBlocks (frm to : Int) : M Unit := do
  let blocks := (← getPc).opened
  closeLoop blocks to (frm - to + 1).toNat
  let len : Int := blocks.length
  let blocks' ←
    if frm == len - 1 then liftE (slice' blocks 0 to)
    else do
      let a ← liftE (slice' blocks 0 to)
      let b ← liftE (slice' blocks (frm + 1) len)
      pure (a ++ b)
  modPc fun pc => { pc with opened := blocks' }
where
  slice' (l : List Block) (a b : Int) : Except Panic (List Block) :=
    if 0 ≤ a ∧ a ≤ b ∧ b ≤ l.length then .ok ((l.drop a.toNat).take (b - a).toNat) else .error .slice

/-! ### openBlocks -/

inductive OpenResult | paragraphContinuation | newBlocksOpened | noBlocksOpened
  deriving DecidableEq, Repr

/-- how the `for _, bp := range bps` loop (parser.go:960-1014) ends -/
inductive TryOutcome
  | retry (parent : Nat)          -- `goto retry` with the new parent
  | done                          -- `break`, or the range is exhausted

/-- parser.go:960-1014 -/
def tryParsers (parent : Nat) (blankLine : Bool) (continuable : Bool) (w : Int) :
    List BP → OpenResult → Option Block → M (TryOutcome × OpenResult × Option Block)
  | [], result, lastBlock => pure (.done, result, lastBlock)
  | bp :: bps, result, lastBlock => do
    if continuable && result == .noBlocksOpened && !bp.canInterruptParagraph then
      return ← tryParsers parent blankLine continuable w bps result lastBlock
    if w > 3 && !bp.canAcceptIndentedLine then
      return ← tryParsers parent blankLine continuable w bps result lastBlock
    let lastBlock ← lastOpenedBlock
    let last := lastBlock.map (·.node)
    let (node, state) ← bpOpen bp parent
    match node with
    | none => tryParsers parent blankLine continuable w bps result lastBlock
    | some node =>
      if state.requirePara then
        if last == (← getNode parent).children.getLast? then
          match lastBlock with
          | none => throw .nil                         -- lastBlock.Parser.Close on the zero Block
          | some lb =>
            bpClose lb.bp lb.node
            let blocks := (← getPc).opened
            if blocks.length == 0 then throw .slice    -- blocks[0 : len(blocks)-1]
            modPc fun pc => { pc with opened := blocks.dropLast }
            if (← getNode lb.node).kind != .paragraph then throw .assert   -- last.(*ast.Paragraph)
            -- transformParagraph returns false: there are no paragraph transformers
      modNode node fun n => { n with blankPrev := blankLine }
      match last with
      | some l =>
        if (← getNode l).parent.isNone then
          let lastPos : Int := ((← getPc).opened.length : Int) - 1
          closeBlocks lastPos lastPos
      | none => pure ()
      appendChild parent node
      modPc fun pc => { pc with opened := pc.opened ++ [{ node := node, bp := bp }] }
      if state.hasChildren then return (.retry node, .newBlocksOpened, lastBlock)
      return (.done, .newBlocksOpened, lastBlock)

/-- the exit `continuable:` of openBlocks (parser.go:1016-1023) -/
def toContinuable (continuable : Bool) (result : OpenResult) (lastBlock : Option Block) : M OpenResult := do
  if result == .noBlocksOpened && continuable then
    match lastBlock with
    | none => throw .nil
    | some lb =>
      let state ← bpContinue lb.bp lb.node
      if state.cont then return .paragraphContinuation
  return result

/-- `last.(*ast.List)` on the last opened block (what listParser.Open tests) -/
def lastIsList (s : St) : Bool :=
  match s.pc.opened.getLast? with
  | some lb => (s.nodes.getD lb.node default).kind == .list
  | none => false

/-- the progress measure of the `goto retry` loop: 2 · (bytes of the source from `pos.Start` on) + (0 if the
    last opened block is a List, else 1). A retry follows the opening of a container: a block quote or a list
    item consumes at least its marker byte, a list consumes nothing but the list parser then refuses to open a
    list directly inside it. -/
def retryMeasure (s : St) : Nat :=
  2 * (s.r.source.length - s.r.pos.start.toNat) + (if lastIsList s then 0 else 1)

/-- parser.openBlocks from the label `retry:` on (parser.go:935-1023); `fuel` bounds the number of
    `goto retry`.

    CONTRACT MONITOR (not Go code): the BlockParser contract (parser.go:496-505: "Open must advance a reader
    position by consumed byte length") is what makes `goto retry` terminate. The model checks it at every
    retry — `retryMeasure` must have decreased — and answers `Panic.pre` ("outside the documented contract")
    otherwise; the Go code would spin or recurse instead. The tie shows that the monitor never fires (the
    real parser never answers `pre`); `GM.Props.Blocks.parseBlocks_fuel_suffices` is unconditional because
    of it. -/
def openBlocksLoop (blankLine continuable : Bool) :
    Nat → Nat → OpenResult → Option Block → M OpenResult
  | 0, _, _, _ => throw .loop
  | fuel + 1, parent, result, lastBlock => do
    let (line, _) ← peekLine
    let lineB := line.getD []
    let len : Int := lineB.length
    let (w, pos) := indentWidthI lineB (← lineOffset)
    -- since f889f33 `pos >= len(line)` (was `w >= len(line)`)
    modPc fun pc =>
      if pos ≥ len then { pc with blockOffset := -1, blockIndent := -1 }
      else { pc with blockOffset := pos, blockIndent := w }
    if line.isNone then return ← toContinuable continuable result lastBlock
    if (← liftE (idx lineB 0)) == 10 then return ← toContinuable continuable result lastBlock
    let bps ←
      if pos < len then do
        let c ← liftE (idx lineB pos)
        pure ((triggered c).getD freeParsers)
      else pure freeParsers
    let before := retryMeasure (← get)
    let (outcome, result, lastBlock) ← tryParsers parent blankLine continuable w bps result lastBlock
    match outcome with
    | .retry parent' =>
      let after := retryMeasure (← get)
      if !(after < before) then throw .pre            -- contract monitor, see above
      openBlocksLoop blankLine continuable fuel parent' result lastBlock
    | .done => toContinuable continuable result lastBlock

/-- fuel for the `goto retry` loop of one `openBlocks` call: every retry but (at most) every second one
    consumes a byte of the line -/
def retryFuel (src : Bytes) : Nat := 2 * src.length + 8

/-- parser.openBlocks (parser.go:928-1024) -/
def openBlocks (parent : Nat) (blankLine : Bool) : M OpenResult := do
  let lastBlock ← lastOpenedBlock
  let continuable ← match lastBlock with
    | some lb => do pure ((← getNode lb.node).kind == .paragraph)
    | none => pure false
  openBlocksLoop blankLine continuable (retryFuel (← source)) parent .noBlocksOpened lastBlock

/-! ### isBlankLine -/

/-- the loop parser.go:1034-1047 over `stats[i]`, `i` from `len(stats)-1-level` down to 0, given as the
    reversed prefix -/
def isBlankLoop (lineNum level : Int) : List LineStat → Bool
  | [] => false
  | s :: rest =>
    if s.lineNum == lineNum && s.level < level && s.isBlank then true
    else if s.lineNum == lineNum && s.level == level then s.isBlank
    else if s.lineNum < lineNum then false
    else isBlankLoop lineNum level rest

/-- parser.isBlankLine (parser.go:1032-1049) -/
def isBlankLine (lineNum level : Int) (stats : List LineStat) : Bool :=
  let n : Int := (stats.length : Int) - 1 - level
  if n < 0 then true
  else
    -- i runs over n, n-1, …, 0: a non-empty range, so `ret` is false when the loop falls through
    isBlankLoop lineNum level (stats.take (n + 1).toNat).reverse

/-! ### parseBlocks -/

/-- how one pass over the opened blocks (parser.go:1081-1123) ends -/
inductive LineOutcome
  | eof           -- `return` after closeBlocks + AdvanceLine (parser.go:1084-1088)
  | next          -- the `for i` loop ended: AdvanceLine and look at the next line

/-- `openedBlocks[lastIndex].Node` read through the stale slice header (see the file comment) -/
def slotAfter (old new : List Block) (lastIndex : Nat) : Option Block :=
  match new[lastIndex]? with
  | some b => some b
  | none => old[lastIndex]?

/-- parser.go:1081-1123: the `for i := 0; i < l; i++` loop; `rest` = openedBlocks[i:] -/
def lineLoop (parent : Nat) (openedBlocks : List Block) (lastIndex : Int) :
    List Block → Int → List LineStat → M (LineOutcome × List LineStat)
  | [], _, blankLines => pure (.next, blankLines)
  | be :: rest, i, blankLines => do
    let (line, _) ← peekLine
    match line with
    | none =>
      closeBlocks lastIndex 0
      advanceLine
      return (.eof, blankLines)
    | some line =>
      let (lineNum, _) ← position
      let blankLines := blankLines ++ [{ lineNum := lineNum, level := i, isBlank := isBlank line }]
      let beNode ← getNode be.node
      let mut fallThrough := true
      if beNode.kind != .paragraph then
        let state ← bpContinue be.bp be.node
        if state.cont then
          if state.hasChildren && i == lastIndex then
            let blank := isBlankLine (lineNum - 1) i blankLines
            let _ ← openBlocks be.node blank
            return (.next, blankLines)
          fallThrough := false
      if !fallThrough then
        lineLoop parent openedBlocks lastIndex rest (i + 1) blankLines
      else
        let blank := isBlankLine (lineNum - 1) i blankLines
        let thisParent ←
          if i != 0 then do
            let b ← liftE (blockAt openedBlocks (i - 1))
            pure b.node
          else pure parent
        let lastNode ← liftE (blockAt openedBlocks lastIndex)
        let result ← openBlocks thisParent blank
        if result != .paragraphContinuation then
          let now := slotAfter openedBlocks (← getPc).opened lastIndex.toNat
          let lastIndex := if now.map (·.node) != some lastNode.node then lastIndex - 1 else lastIndex
          closeBlocks lastIndex i
        return (.next, blankLines)

/-- parser.go:1074-1126: the `for {}` over lines; `fuel` bounds the number of lines -/
def linesLoop (parent : Nat) : Nat → List LineStat → M (Bool × List LineStat)
  | 0, _ => throw .loop
  | fuel + 1, blankLines => do
    let openedBlocks := (← getPc).opened
    let l := openedBlocks.length
    if l == 0 then return (false, blankLines)             -- `break`
    let (outcome, blankLines) ← lineLoop parent openedBlocks ((l : Int) - 1) openedBlocks 0 blankLines
    match outcome with
    | .eof => return (true, blankLines)                   -- `return` from parseBlocks
    | .next =>
      advanceLine
      linesLoop parent fuel blankLines

/-- the `append` loop parser.go:1064-1066 -/
def blankStats (lineNum : Int) (lines : Int) : Nat → List LineStat
  | 0 => []
  | k + 1 => blankStats lineNum lines k ++ [{ lineNum := lineNum - 1, level := k, isBlank := lines != 0 }]

/-- parser.go:1055-1127: the outer `for {}`; `fuel` bounds the number of iterations -/
def blocksLoop (parent : Nat) : Nat → List LineStat → M Unit
  | 0, _ => throw .loop
  | fuel + 1, blankLines => do
    let (_, lines, ok) ← skipBlankLinesR
    if !ok then return
    let (lineNum, _) ← position
    let nOpened := (← getPc).opened.length
    let blankLines := if lines != 0 then blankStats lineNum lines nOpened else blankLines
    let blank := isBlankLine (lineNum - 1) 0 blankLines
    if (← openBlocks parent blank) != .newBlocksOpened then return
    advanceLine
    let (ret, blankLines) ← linesLoop parent fuel blankLines
    if ret then return
    blocksLoop parent fuel blankLines

/-- number of lines of the source (number of `\n` plus one) -/
def lineCount (src : Bytes) : Nat := (src.filter (· == 10)).length + 1

/-- fuel for the two line loops of parseBlocks: every iteration consumes a line -/
def linesFuel (src : Bytes) : Nat := lineCount src + 2

/-- parser.parseBlocks (parser.go:1051-1128) -/
def parseBlocks (parent : Nat) : M Unit := do
  modPc fun pc => { pc with opened := [] }
  blocksLoop parent (linesFuel (← source)) []

/-- the state `Parse` starts the block phase in: a fresh reader, a Document node, a fresh context -/
def initSt (src : Bytes) : St :=
  { r := Reader.new src, nodes := [{ kind := .document }], pc := {} }

/-- the block phase of `parser.Parse` on `src`: the final state (node 0 is the Document) -/
def run (src : Bytes) : Except Panic St :=
  (parseBlocks 0 (initSt src)).map (·.2)

/-! ### the block tree (what the correspondence compares) -/

inductive Tree
  | node (n : Node) (children : List Tree)

/-- read the tree below `id` out of the store; `fuel` ≥ depth -/
def treeOf (nodes : List Node) : Nat → Nat → Tree
  | 0, id => .node (nodes.getD id default) []
  | fuel + 1, id =>
    let n := nodes.getD id default
    .node n (n.children.map (treeOf nodes fuel))

def segStr (s : Segment) : String :=
  s!"{s.start}:{s.stop}:{s.padding}:{if s.forceNewline then 1 else 0}"

def nodeFields (n : Node) : String :=
  match n.kind with
  | .heading => s!"{n.level}"
  | .list => s!"{n.marker.toNat},{n.start},{if n.tight then 1 else 0}"
  | .listItem => s!"{n.offset}"
  | .fencedCodeBlock => match n.info with | some s => segStr s | none => "nil"
  | .htmlBlock => s!"{n.htmlType},{segStr n.closure}"
  | _ => ""

mutual
  /-- `Kind(blank|fields|lines|children)` -/
  def Tree.str : Tree → String
    | .node n cs =>
      n.kind.name ++ "(" ++ (if n.blankPrev then "1" else "0") ++ "|" ++ nodeFields n ++ "|" ++
        ",".intercalate (n.lines.map segStr) ++ "|" ++ Tree.strs cs ++ ")"
  def Tree.strs : List Tree → String
    | [] => ""
    | t :: ts => t.str ++ Tree.strs ts
end

/-- C05(c) for one block: every line satisfies `0 ≤ start ≤ stop ≤ len`, `padding ≥ 0`, and a line does not
    start before the previous line's stop -/
def linesOK (len : Int) : Int → List Segment → Bool
  | _, [] => true
  | prevStop, s :: rest =>
    decide (0 ≤ s.start) && decide (s.start ≤ s.stop) && decide (s.stop ≤ len) && decide (0 ≤ s.padding) &&
      decide (prevStop ≤ s.start) && linesOK len s.stop rest

/-- C05(c), block phase: `linesOK` for every node of the store (reachable from the document or not) -/
def allLinesOK (src : Bytes) (s : St) : Bool := s.nodes.all fun n => linesOK src.length (-1) n.lines

/-- `ok`, or which clause fails, for the tree the model builds for `src` -/
def checkLines (src : Bytes) : String :=
  match run src with
  | .ok s => if allLinesOK src s then "ok" else "fail:lines-out-of-range-or-not-increasing"
  | .error e => "fail:" ++ e.str

/-- canonical one-line dump of the block tree of `src`, or the panic -/
def dump (src : Bytes) : String :=
  match run src with
  | .ok s => (treeOf s.nodes s.nodes.length 0).str
  | .error e => e.str

end GM.Blocks
