/-
  GM.Model.Blocks.Basic — the state the block phase of goldmark works on (parser/parser.go `parseContext`,
  `Block`, the AST nodes the block parsers build) and the monad the model is written in. Core Lean only.

  * `M = StateT St (Except Panic)`: a Go function that reads/writes the reader, the AST or the parse
    context is an `M α`; a Go run-time panic is `throw`; a Go loop without syntactic bound that runs out
    of model fuel is `throw .loop` (theorems in GM.Proof.Blocks* show it does not happen).
  * AST: a store of nodes addressed by allocation index (`Nat` = Go pointer identity). A node keeps its
    parent and its ordered child list; `ChildCount` is the length of that list, `FirstChild/LastChild/
    NextSibling` are read off it. That this is what ast.go's intrusive doubly linked list does is property
    C13 (`run_refines`, after repair 710d33d); the block phase uses AppendChild / RemoveChild /
    InsertAfter / ReplaceChild only. A store lookup cannot fail in Go (a non-nil pointer is valid), so the
    store lookup is total here; every *nil* pointer the Go code could dereference is an explicit `Option`
    with an explicit `.nil` panic.
  * Go `int`s are `Int`.
-/
import GM.Model.Reader

namespace GM.Blocks
open GM GM.Text

/-! ### util functions on Go ints (util/util.go) -/

/-- util.TabWidth (util.go:141-143); Go's `%` truncates toward zero -/
def tabWidthI (p : Int) : Int := 4 - Int.tmod p 4

/-- util.IndentWidth (util.go:244-259): (width, pos) -/
def indentWidthGo (cur : Int) : Bytes → Int → Int → Int × Int
  | [], w, p => (w, p)
  | b :: bs, w, p =>
    if b == 32 then indentWidthGo cur bs (w + 1) (p + 1)
    else if b == 9 then indentWidthGo cur bs (w + tabWidthI (cur + w)) (p + 1)
    else (w, p)
def indentWidthI (bs : Bytes) (cur : Int) : Int × Int := indentWidthGo cur bs 0 0

/-- the loop of util.IndentPositionPadding (util.go:170-184): final (i, w) -/
def ippLoop (cur width : Int) : Bytes → Int → Int → Int → Int × Int
  | [], i, _, w => (i, w)
  | b :: bs, i, p, w =>
    if p > 0 then ippLoop cur width bs (i + 1) (p - 1) (w + 1)
    else if b == 9 && w < width then ippLoop cur width bs (i + 1) p (w + tabWidthI (cur + w))
    else if b == 32 && w < width then ippLoop cur width bs (i + 1) p (w + 1)
    else (i, w)

/-- util.IndentPositionPadding (util.go:162-189) -/
def indentPositionPadding (bs : Bytes) (cur paddingv width : Int) : Int × Int :=
  if width == 0 then (0, paddingv)
  else
    let r := ippLoop cur width bs 0 paddingv 0
    if r.2 ≥ width then (r.1 - paddingv, r.2 - width) else (-1, -1)

/-- util.IndentPosition (util.go:155-157) -/
def indentPosition (bs : Bytes) (cur width : Int) : Int × Int := indentPositionPadding bs cur 0 width

/-- util.FirstNonSpacePosition (util.go:263-276), -1 when there is none -/
def firstNonSpacePos (bs : Bytes) : Int :=
  match firstNonSpacePosition bs 0 with
  | some i => i
  | none => -1

/-- `line[i]` on a Go int index -/
def idx (l : Bytes) (i : Int) : Except Panic UInt8 := getByte l i

/-- `line[a:]` (cap = len for every line the parsers slice: PeekLine returns either the cached value of
    `Segment.Value` or a sub-slice of the source; slicing beyond `len` within `cap` never happens in a
    way that the parsers could observe because they only slice with bounds ≤ len) -/
def sliceFrom (l : Bytes) (a : Int) : Except Panic Bytes :=
  if 0 ≤ a ∧ a ≤ l.length then .ok (l.drop a.toNat) else .error .slice

/-- `line[a:b]` -/
def slice (l : Bytes) (a b : Int) : Except Panic Bytes := sliceB l a b

/-- number of leading bytes equal to `c` (util.TrimLeftLength with a one-byte set) -/
def countLeading (c : UInt8) (l : Bytes) : Nat := (l.takeWhile (· == c)).length

/-- `for ; i < len(line) && line[i] == c; i++ {}` starting at `i` (in range or not): the final `i` -/
def scanWhileEq (line : Bytes) (c : UInt8) (i : Int) : Int :=
  if i < 0 then i   -- not reachable: callers have i ≥ 0 (a negative index would panic in `line[i]`)
  else i + countLeading c (line.drop i.toNat)

/-! ### AST nodes -/

inductive Kind
  | document | paragraph | textBlock | thematicBreak | blockquote | heading | codeBlock | fencedCodeBlock
  | htmlBlock | list | listItem
  deriving DecidableEq, Repr, Inhabited

def Kind.name : Kind → String
  | .document => "Document" | .paragraph => "Paragraph" | .textBlock => "TextBlock"
  | .thematicBreak => "ThematicBreak" | .blockquote => "Blockquote" | .heading => "Heading"
  | .codeBlock => "CodeBlock" | .fencedCodeBlock => "FencedCodeBlock" | .htmlBlock => "HTMLBlock"
  | .list => "List" | .listItem => "ListItem"

/-- an ast.Node of block type with the fields the block phase reads or writes -/
structure Node where
  kind : Kind
  parent : Option Nat := none
  children : List Nat := []
  lines : List Segment := []
  /-- `lines.values == nil` (never appended to, or `Clear`ed): only `Unshift` can tell -/
  linesNil : Bool := true
  blankPrev : Bool := false
  /-- Heading.Level -/
  level : Int := 0
  /-- List.Marker / List.Start / List.IsTight -/
  marker : UInt8 := 0
  start : Int := 0
  tight : Bool := true
  /-- ListItem.Offset -/
  offset : Int := 0
  /-- FencedCodeBlock.Info (the segment of the Text node) -/
  info : Option Segment := none
  /-- HTMLBlock.HTMLBlockType (1..7) / ClosureLine -/
  htmlType : Nat := 0
  closure : Segment := { start := -1, stop := -1 }
  deriving Repr, Inhabited

/-- the ten default block parsers (parser.DefaultBlockParsers, parser.go:581-594) -/
inductive BP
  | setext | thematic | list | listItem | code | atx | fenced | blockquote | html | paragraph
  deriving DecidableEq, Repr, Inhabited

/-- parser.Block (parser.go:625-630) -/
structure Block where
  node : Nat
  bp : BP
  deriving DecidableEq, Repr, Inhabited

/-- fcode_block.go:21-26 -/
structure FenceData where
  char : UInt8
  indent : Int
  length : Int
  node : Nat
  deriving Repr

/-- parser.go:1026-1030 -/
structure LineStat where
  lineNum : Int
  level : Int
  isBlank : Bool
  deriving Repr

/-- the fields of `parseContext` (parser.go:222-232) the block phase uses; the four context keys of the
    default block parsers as typed fields (`none`/`false` = the key is unset or set to nil) -/
structure Ctx where
  blockOffset : Int := -1
  blockIndent : Int := -1
  opened : List Block := []
  /-- temporaryParagraphKey (setext_headings.go:9) -/
  tmpPara : Option Nat := none
  /-- fencedCodeBlockInfoKey (fcode_block.go:29) -/
  fence : Option FenceData := none
  /-- skipListParserKey (list.go:19) -/
  skipList : Bool := false
  /-- emptyListItemWithBlankLines (list.go:20) -/
  emptyItemBlank : Bool := false
  /-- `parseContext.refs` (parser.go:226): the link reference map, keys normalised by `util.ToLinkReference`, first
      definition wins (only written by the link-reference paragraph transformer, GM.Model.LinkRef) -/
  refs : List (Bytes × (Bytes × Option Bytes)) := []
  deriving Repr

structure St where
  r : Reader
  nodes : List Node
  pc : Ctx
  deriving Repr

abbrev M := StateT St (Except Panic)

def liftE {α} (e : Except Panic α) : M α := fun s => e.map fun a => (a, s)

/-! ### the reader, as the parsers call it -/

def peekLine : M (Option Bytes × Segment) := fun s => do
  let (x, r) ← s.r.peekLine
  pure (x, { s with r := r })

def lineOffset : M Int := fun s => do
  let (x, r) ← s.r.lineOffsetOp
  pure (x, { s with r := r })

def advance (n : Int) : M Unit := fun s => do
  let r ← s.r.advance n
  pure ((), { s with r := r })

def advanceAndSetPadding (n p : Int) : M Unit := fun s => do
  let r ← s.r.advanceAndSetPadding n p
  pure ((), { s with r := r })

def advanceLine : M Unit := fun s => pure ((), { s with r := s.r.advanceLine })

def position : M (Int × Segment) := fun s => pure (s.r.position, s)

def setPosition (l : Int) (p : Segment) : M Unit := fun s => pure ((), { s with r := s.r.setPosition l p })

def source : M Bytes := fun s => pure (s.r.source, s)

def skipBlankLinesR : M (Segment × Int × Bool) := fun s => do
  let (x, r) ← skipBlankLines readerOps (loopFuel s.r.source) 0 s.r
  pure (x, { s with r := r })

/-- `len(line)` (0 for a nil line) -/
def lineLenI (l : Option Bytes) : Int := ((l.getD []).length : Int)

/-! ### the node store -/

def getNode (id : Nat) : M Node := fun s => pure (s.nodes.getD id default, s)

def modNode (id : Nat) (f : Node → Node) : M Unit := fun s =>
  pure ((), { s with nodes := s.nodes.set id (f (s.nodes.getD id default)) })

def newNode (n : Node) : M Nat := fun s => pure (s.nodes.length, { s with nodes := s.nodes ++ [n] })

def getPc : M Ctx := fun s => pure (s.pc, s)
def modPc (f : Ctx → Ctx) : M Unit := fun s => pure ((), { s with pc := f s.pc })

/-- `pc.LastOpenedBlock()` (parser.go:389-394); `none` = `Block{}` with a nil Node -/
def lastOpenedBlock : M (Option Block) := do return (← getPc).opened.getLast?

/-- the element after `c` in `l` -/
def nextIn (c : Nat) : List Nat → Option Nat
  | [] => none
  | [_] => none
  | a :: b :: rest => if a == c then some b else nextIn c (b :: rest)

/-- `l` with `v` put directly in front of the first occurrence of `before` -/
def insertBeforeIn (before v : Nat) : List Nat → List Nat
  | [] => [v]
  | a :: rest => if a == before then v :: a :: rest else a :: insertBeforeIn before v rest

/-- Node.RemoveChild (ast.go:221-242) -/
def removeChild (p c : Nat) : M Unit := do
  let cn ← getNode c
  if cn.parent != some p then return
  modNode p fun n => { n with children := n.children.erase c }
  modNode c fun n => { n with parent := none }

/-- ast.ensureIsolated (ast.go): detach from the current parent -/
def ensureIsolated (c : Nat) : M Unit := do
  let cn ← getNode c
  match cn.parent with
  | some q => removeChild q c
  | none => pure ()

/-- Node.AppendChild (ast.go:314-328) -/
def appendChild (p c : Nat) : M Unit := do
  ensureIsolated c
  modNode p fun n => { n with children := n.children ++ [c] }
  modNode c fun n => { n with parent := some p }

/-- Node.InsertBefore (ast.go:348-367); `v1 = none` is a nil node -/
def insertBefore (p : Nat) (v1 : Option Nat) (ins : Nat) : M Unit := do
  match v1 with
  | none => appendChild p ins
  | some v =>
    let vn ← getNode v
    if vn.parent != some p then appendChild p ins
    else
      ensureIsolated ins
      modNode p fun n => { n with children := insertBeforeIn v ins n.children }
      modNode ins fun n => { n with parent := some p }

/-- Node.NextSibling -/
def nextSibling (c : Nat) : M (Option Nat) := do
  let cn ← getNode c
  match cn.parent with
  | none => pure none
  | some p => do
    let pn ← getNode p
    pure (nextIn c pn.children)

/-- Node.InsertAfter (ast.go:336-346) -/
def insertAfter (p : Nat) (v1 : Option Nat) (ins : Nat) : M Unit := do
  match v1 with
  | none => appendChild p ins
  | some v =>
    let next ← nextSibling v
    let next ← if next == some ins then nextSibling ins else pure next
    insertBefore p next ins

/-- Node.ReplaceChild (ast.go:330-333) -/
def replaceChild (p v1 ins : Nat) : M Unit := do
  insertBefore p (some v1) ins
  removeChild p v1

/-- `node.Lines().Append(seg)` -/
def appendLine (id : Nat) (seg : Segment) : M Unit :=
  modNode id fun n => { n with lines := n.lines ++ [seg], linesNil := false }

/-- `Segments.At(i)` -/
def lineAt (ls : List Segment) (i : Int) : Except Panic Segment := segAt ls i

/-- `Segments.Set(i, v)` -/
def lineSet (ls : List Segment) (i : Int) (v : Segment) : Except Panic (List Segment) :=
  if 0 ≤ i ∧ i < ls.length then .ok (ls.set i.toNat v) else .error .index

end GM.Blocks
