/-
  GM.Model.Blocks.Html — parser/html_block.go. The regular expressions (Go `regexp`, RE2 syntax: `.` does
  not match `\n`, `$` is end of text, `\s` = [\t\n\f\r ], `(?i)` folds with Unicode simple folding, so
  `s` also matches U+017F) are matched by hand; every expression is anchored at both ends or only its
  existence matters, and for the one expression whose sub-matches are read (type 7) the decomposition is
  unique (argued at `attrs`). Core Lean only.
-/
import GM.Model.Blocks.Leaf

namespace GM.Blocks
open GM GM.Text

/-- html_block.go:13-78 `allowedBlockTags` -/
def allowedBlockTags : List String :=
  ["address", "article", "aside", "base", "basefont", "blockquote", "body", "caption", "center", "col",
   "colgroup", "dd", "details", "dialog", "dir", "div", "dl", "dt", "fieldset", "figcaption", "figure",
   "footer", "form", "frame", "frameset", "h1", "h2", "h3", "h4", "h5", "h6", "head", "header", "hr", "html",
   "iframe", "legend", "li", "link", "main", "menu", "menuitem", "meta", "nav", "noframes", "ol", "optgroup",
   "option", "p", "param", "search", "section", "summary", "table", "tbody", "td", "tfoot", "th", "thead",
   "title", "tr", "track", "ul"]

def allowedTagBytes : List Bytes := allowedBlockTags.map strBytes

def isAllowedTag (lowerName : Bytes) : Bool := allowedTagBytes.contains lowerName

def isAlpha (c : UInt8) : Bool := (65 ≤ c && c ≤ 90) || (97 ≤ c && c ≤ 122)
def isUpper (c : UInt8) : Bool := 65 ≤ c && c ≤ 90
def isTagChar (c : UInt8) : Bool := isAlpha c || isNumeric c || c == 45

/-- `^[ ]{0,3}<`: the rest after `<` -/
def afterLt (l : Bytes) : Option Bytes :=
  let k := countLeading 32 l
  if k > 3 then none
  else match l.drop k with
    | 60 :: rest => some rest
    | _ => none

/-- `l` begins with the literal `p`: the rest -/
def stripPrefix : Bytes → Bytes → Option Bytes
  | [], l => some l
  | _ :: _, [] => none
  | p :: ps, c :: cs => if p == c then stripPrefix ps cs else none

/-- one lower-case ASCII pattern letter under `(?i)` at the head of `l` -/
def ciChar (p : UInt8) (l : Bytes) : Option Bytes :=
  match l with
  | [] => none
  | c :: cs =>
    if c == p || c + 32 == p && isUpper c then some cs
    else if p == 115 then                      -- 's' also folds to U+017F (C5 BF)
      match l with
      | 0xC5 :: 0xBF :: r => some r
      | _ => none
    else none

/-- a lower-case ASCII word under `(?i)` -/
def ciPrefix : Bytes → Bytes → Option Bytes
  | [], l => some l
  | p :: ps, l =>
    match ciChar p l with
    | some r => ciPrefix ps r
    | none => none

/-- `.*(?:\r\n|\n)?$`: no `\n` except as the last byte -/
def dotStarEnd : Bytes → Bool
  | [] => true
  | [_] => true
  | c :: cs => c != 10 && dotStarEnd cs

def isReSpace (c : UInt8) : Bool := c == 9 || c == 10 || c == 12 || c == 13 || c == 32

def type1Names : List Bytes := [strBytes "script", strBytes "pre", strBytes "style", strBytes "textarea"]

/-- `(?:\s.*|>.*|/>.*|)(?:\r\n|\n)?$` -/
def tail1 (r : Bytes) : Bool :=
  match r with
  | [] => true
  | [10] => true
  | [13, 10] => true
  | 47 :: 62 :: x => dotStarEnd x
  | c :: x => (isReSpace c || c == 62) && dotStarEnd x

/-- htmlBlockType1OpenRegexp -/
def type1Open (line : Bytes) : Bool :=
  match afterLt line with
  | none => false
  | some r => type1Names.any fun nm =>
      match ciPrefix nm r with
      | some t => tail1 t
      | none => false

/-- `</(?:script|pre|style|textarea)>` at the head of `l` -/
def closeTagAt (l : Bytes) : Bool :=
  match l with
  | 60 :: 47 :: r => type1Names.any fun nm =>
      match ciPrefix nm r with
      | some (62 :: _) => true
      | _ => false
  | _ => false

/-- htmlBlockType1CloseRegexp `(?i)^.*</(?:script|pre|style|textarea)>.*` -/
def type1Close : Bytes → Bool
  | [] => false
  | c :: cs => closeTagAt (c :: cs) || (c != 10 && type1Close cs)

def hasPrefixAfterSp (pre : Bytes) (line : Bytes) : Bool :=
  match afterLt line with
  | none => false
  | some r => (stripPrefix pre r).isSome

/-- htmlBlockType2OpenRegexp `^[ ]{0,3}<!\-\-` -/
def type2Open (line : Bytes) : Bool := hasPrefixAfterSp (strBytes "!--") line
/-- htmlBlockType3OpenRegexp `^[ ]{0,3}<\?` -/
def type3Open (line : Bytes) : Bool := hasPrefixAfterSp (strBytes "?") line
/-- htmlBlockType4OpenRegexp `^[ ]{0,3}<![A-Z]+.*(?:\r\n|\n)?$` -/
def type4Open (line : Bytes) : Bool :=
  match afterLt line with
  | some (33 :: c :: rest) => isUpper c && dotStarEnd (rest.dropWhile isUpper)
  | _ => false
/-- htmlBlockType5OpenRegexp `^[ ]{0,3}<\!\[CDATA\[` -/
def type5Open (line : Bytes) : Bool := hasPrefixAfterSp (strBytes "![CDATA[") line

/-- `(/[ ]*)?([a-zA-Z]+[a-zA-Z0-9\-]*)` after `<`: (group 1 is exactly "/", tag name, rest).
    Both groups are forced: a tag name cannot begin with `/` or a space, and what follows a tag name in
    either expression (space, `>`, `/`, end) is not a tag-name byte, so the name is the maximal run. -/
def tagHead (r : Bytes) : Option (Bool × Bytes × Bytes) :=
  let (slash, spaces, r1) : Bool × Nat × Bytes :=
    match r with
    | 47 :: r' => (true, countLeading 32 r', r'.dropWhile (· == 32))
    | _ => (false, 0, r)
  match r1 with
  | c :: _ =>
    if isAlpha c then
      let nm := r1.takeWhile isTagChar
      some (slash && spaces == 0, nm, r1.drop nm.length)
    else none
  | [] => none

def isAttrWs (c : UInt8) : Bool := c == 13 || c == 10 || c == 32 || c == 9
def isAttrNameStart (c : UInt8) : Bool := isAlpha c || c == 95 || c == 58
def isAttrNameChar (c : UInt8) : Bool := isAlpha c || isNumeric c || c == 58 || c == 46 || c == 95 || c == 45
/-- ``[^\"'=<>`\x00-\x20]`` -/
def isUnquotedChar (c : UInt8) : Bool :=
  !(c == 34 || c == 39 || c == 61 || c == 60 || c == 62 || c == 96 || c ≤ 32)

/-- the value part ``(?:[^\"'=<>`\x00-\x20]+|'[^']*'|"[^"]*")`` at the head of `l`: the rest.
    Taking the maximal unquoted run loses nothing: a shorter run can only be followed by `/>`, and then the
    maximal one (which includes that `/`) is followed by `>`, both of which the tail accepts. -/
def attrValue (l : Bytes) : Option Bytes :=
  match l with
  | 39 :: r =>
    match r.dropWhile (· != 39) with
    | _ :: t => some t
    | [] => none
  | 34 :: r =>
    match r.dropWhile (· != 34) with
    | _ :: t => some t
    | [] => none
  | c :: _ => if isUnquotedChar c then some (l.dropWhile isUnquotedChar) else none
  | [] => none

/-- one `attributePattern` (raw_html.go:52) at the head of `l`. `none` = no attribute starts here;
    `some none` = an attribute starts here but cannot be completed (after `name =` a value is compulsory and
    nothing else in the expression can consume the `=`), so the whole expression fails. -/
def attrOne (l : Bytes) : Option (Option Bytes) :=
  let ws := l.takeWhile isAttrWs
  if ws.isEmpty then none
  else
    let r := l.drop ws.length
    match r with
    | c :: _ =>
      if !isAttrNameStart c then none
      else
        let nm := r.takeWhile isAttrNameChar
        let r2 := r.drop nm.length
        let r3 := r2.dropWhile isAttrWs
        match r3 with
        | 61 :: r4 => some (attrValue (r4.dropWhile isAttrWs))
        | _ => some (some r2)
    | [] => none

theorem length_dropWhile_le' (p : UInt8 → Bool) (l : Bytes) : (l.dropWhile p).length ≤ l.length := by
  induction l with
  | nil => simp
  | cons c cs ih => simp only [List.dropWhile]; split <;> simp <;> omega

theorem length_takeWhile_le' (p : UInt8 → Bool) (l : Bytes) : (l.takeWhile p).length ≤ l.length := by
  induction l with
  | nil => simp
  | cons c cs ih => simp only [List.takeWhile]; split <;> simp <;> omega

theorem attrValue_len {l r : Bytes} (h : attrValue l = some r) : r.length ≤ l.length := by
  unfold attrValue at h
  split at h
  · rename_i r0
    split at h
    · rename_i x t heq
      cases h
      have := length_dropWhile_le' (· != 39) r0
      rw [heq] at this; simp at this ⊢; omega
    · cases h
  · rename_i r0
    split at h
    · rename_i x t heq
      cases h
      have := length_dropWhile_le' (· != 34) r0
      rw [heq] at this; simp at this ⊢; omega
    · cases h
  · split at h
    · cases h; exact length_dropWhile_le' _ _
    · cases h
  · cases h

theorem attrOne_len {l r : Bytes} (h : attrOne l = some (some r)) : r.length < l.length := by
  unfold attrOne at h
  simp only at h
  split at h
  · cases h
  · rename_i hws
    have hws' : 0 < (l.takeWhile isAttrWs).length := by
      cases hl : l.takeWhile isAttrWs with
      | nil => simp [hl] at hws
      | cons _ _ => simp
    have hle : (l.takeWhile isAttrWs).length ≤ l.length := length_takeWhile_le' _ _
    split at h
    · rename_i c rr heq
      split at h
      · cases h
      · have h1 : (List.drop (l.takeWhile isAttrWs).length l).length = l.length - (l.takeWhile isAttrWs).length := by simp
        split at h
        · rename_i r4 heq4
          injection h with h
          have hv := attrValue_len h
          have a1 := length_dropWhile_le' isAttrWs r4
          have a2 := length_dropWhile_le' isAttrWs
            (List.drop (List.takeWhile isAttrNameChar (List.drop (l.takeWhile isAttrWs).length l)).length (List.drop (l.takeWhile isAttrWs).length l))
          rw [heq4] at a2
          simp only [List.length_cons, List.length_drop] at a2
          omega
        · injection h with h
          injection h with h
          subst h
          simp only [List.length_drop]
          omega
    · cases h

/-- `(attributePattern*)`: (some attribute matched, rest), or `none` when an attribute fails half-way -/
def attrs (l : Bytes) (seen : Bool) : Option (Bool × Bytes) :=
  match h : attrOne l with
  | none => some (seen, l)
  | some none => none
  | some (some r) => attrs r true
termination_by l.length
decreasing_by exact attrOne_len h

/-- `[ ]*(?:>|/>)[ ]*(?:\r\n|\n)?$` -/
def tail7 (l : Bytes) : Bool :=
  let l := l.dropWhile (· == 32)
  let afterGt : Option Bytes :=
    match l with
    | 62 :: r => some r
    | 47 :: 62 :: r => some r
    | _ => none
  match afterGt with
  | none => false
  | some r =>
    let r := r.dropWhile (· == 32)
    r == [] || r == [10] || r == [13, 10]

/-- htmlBlockType7Regexp: (isCloseTag, hasAttr, tag name) -/
def type7Match (line : Bytes) : Option (Bool × Bool × Bytes) :=
  match afterLt line with
  | none => none
  | some r =>
    match tagHead r with
    | none => none
    | some (isClose, nm, r1) =>
      match attrs r1 false with
      | none => none
      | some (hasAttr, r2) => if tail7 r2 then some (isClose, hasAttr, nm) else none

/-- htmlBlockType6Regexp: the tag name -/
def type6Match (line : Bytes) : Option Bytes :=
  match afterLt line with
  | none => none
  | some r =>
    match tagHead r with
    | none => none
    | some (_, nm, r1) =>
      let ok := match r1 with
        | [] => true
        | [10] => true
        | [13, 10] => true
        | 47 :: 62 :: x => dotStarEnd x
        | c :: x => (c == 32 || c == 62) && dotStarEnd x
      if ok then some nm else none

/-- which HTML block type the line opens (html_block.go:121-155); `lastIsPara` = `ast.IsParagraph(last)` -/
def htmlOpenType (line : Bytes) (lastIsPara : Bool) : Option Nat :=
  if type1Open line then some 1
  else if type2Open line then some 2
  else if type3Open line then some 3
  else if type4Open line then some 4
  else if type5Open line then some 5
  else
    let first : Option Nat :=
      match type7Match line with
      | some (isClose, hasAttr, nm) =>
        let tag := nm.map lowerAscii
        if isAllowedTag tag then some 6
        else if tag != strBytes "script" && tag != strBytes "style" && tag != strBytes "pre" && !lastIsPara
                && !(isClose && hasAttr) then some 7
        else none
      | none => none
    match first with
    | some t => some t
    | none =>
      match type6Match line with
      | some nm => if isAllowedTag (nm.map lowerAscii) then some 6 else none
      | none => none

/-- htmlBlockParser.Open (html_block.go:112-163) -/
def htmlOpen (_parent : Nat) : M (Option Nat × PState) := do
  let (line, segment) ← peekLine
  let line := line.getD []
  let lastIsPara ← match ← lastOpenedBlock with
    | some lb => do pure ((← getNode lb.node).kind == .paragraph)
    | none => pure false
  let pos := (← getPc).blockOffset
  if pos < 0 then return (none, stNoChildren)
  if (← liftE (idx line pos)) != 60 then return (none, stNoChildren)
  match htmlOpenType line lastIsPara with
  | some t =>
    let node ← newNode { kind := .htmlBlock, htmlType := t }
    advance (segment.len - trimRightSpaceLength line)
    appendLine node segment
    return (some node, stNoChildren)
  | none => return (none, stNoChildren)

/-- `bytes.Contains(l, pat)` -/
def containsSub (pat : Bytes) : Bytes → Bool
  | [] => pat.isEmpty
  | c :: cs => (stripPrefix pat (c :: cs)).isSome || containsSub pat cs

/-- htmlBlockParser.Continue (html_block.go:165-217) -/
def htmlContinue (node : Nat) : M PState := do
  let n ← getNode node
  let (line, segment) ← peekLine
  let line := line.getD []
  let closes (v : Bytes) : Bool :=
    if n.htmlType == 1 then type1Close v
    else if n.htmlType == 2 then containsSub (strBytes "-->") v
    else if n.htmlType == 3 then containsSub (strBytes "?>") v
    else if n.htmlType == 4 then containsSub (strBytes ">") v
    else containsSub (strBytes "]]>") v
  if 1 ≤ n.htmlType && n.htmlType ≤ 5 then
    if n.lines.length == 1 then
      let firstLine ← liftE (lineAt n.lines 0)
      if closes (← liftE (firstLine.value (← source))) then return stClose
    if closes line then
      modNode node fun n => { n with closure := segment }
      advance (segment.len - trimRightSpaceLength line)
      return stClose
  else if n.htmlType == 6 || n.htmlType == 7 then
    if isBlank line then return stClose
  appendLine node segment
  advance (segment.len - trimRightSpaceLength line)
  return stContinueNoChildren

end GM.Blocks
