/-
  GM.Model.Blocks.List — the container block parsers: blockquote.go, list.go, list_item.go, statement by
  statement. Core Lean only.
-/
import GM.Model.Blocks.Leaf

namespace GM.Blocks
open GM GM.Text

/-! ### blockquote.go -/

/-- blockquoteParser.process (blockquote.go:20-40) -/
def blockquoteProcess : M Bool := do
  let (line, _) ← peekLine
  let line := line.getD []
  let len : Int := line.length
  let (w, pos) := indentWidthI line (← lineOffset)
  if w > 3 || pos ≥ len then return false
  if (← liftE (idx line pos)) != 62 then return false
  let pos := pos + 1
  if pos ≥ len then
    advance pos
    return true
  let c ← liftE (idx line pos)
  if c == 10 then
    advance pos
    return true
  advance pos
  if c == 32 || c == 9 then
    let padding ← if c == 9 then do pure (tabWidthI (← lineOffset) - 1) else pure 0
    advanceAndSetPadding 1 padding
  return true

/-- blockquoteParser.Open (blockquote.go:46-51) -/
def blockquoteOpen (_parent : Nat) : M (Option Nat × PState) := do
  if ← blockquoteProcess then
    let node ← newNode { kind := .blockquote }
    return (some node, stHasChildren)
  return (none, stNoChildren)

/-- blockquoteParser.Continue (blockquote.go:53-58) -/
def blockquoteContinue (_node : Nat) : M PState := do
  if ← blockquoteProcess then return stContinueHasChildren
  return stClose

/-! ### list.go: recognisers -/

inductive ListTyp | notList | bullet | ordered
  deriving DecidableEq, Repr

/-- the entries of Go's `[6]int` match array that are read (match[0] is always 0) -/
structure M6 where
  r1 : Int := 0
  r2 : Int := 0
  r3 : Int := 0
  r4 : Int := 0
  r5 : Int := 0
  deriving DecidableEq, Repr

/-- list.go:64-84: after the marker, which ends at byte `i`; `k` = number of leading spaces -/
def pliFinish (line : Bytes) (k i : Nat) (typ : ListTyp) : M6 × ListTyp :=
  match line.drop i with
  | [] => ({ r1 := k, r2 := k, r3 := i, r4 := -1, r5 := -1 }, typ)
  | c :: cs =>
    if c != 10 && (indentWidthI (c :: cs) 0).1 == 0 then ({ r1 := k, r2 := k, r3 := i }, .notList)
    else
      let r5 : Int := if line.getLast? == some 10 && c != 10 then (line.length : Int) - 1 else line.length
      ({ r1 := k, r2 := k, r3 := i, r4 := i, r5 := r5 }, typ)

/-- parser.parseListItem (list.go:26-85). The tab test inside the first loop is dead code (the loop
    condition already requires a space). -/
def parseListItem (line : Bytes) : M6 × ListTyp :=
  let k := countLeading 32 line
  if k > 3 then ({}, .notList)
  else
    match line.drop k with
    | [] => ({ r1 := k, r2 := k }, .notList)
    | c :: cs =>
      if c == 45 || c == 42 || c == 43 then pliFinish line k (k + 1) .bullet
      else
        let nd := ((c :: cs).takeWhile isNumeric).length
        if nd == 0 || nd > 9 then ({ r1 := k, r2 := k, r3 := k + nd }, .notList)
        else
          match (c :: cs).drop nd with
          | d :: _ =>
            if d == 46 || d == 41 then pliFinish line k (k + nd + 1) .ordered
            else ({ r1 := k, r2 := k, r3 := k + nd }, .notList)
          | [] => ({ r1 := k, r2 := k, r3 := k + nd }, .notList)

/-- parser.matchesListItem (list.go:87-93) -/
def matchesListItem (line : Bytes) (strict : Bool) : M6 × ListTyp :=
  let r := parseListItem line
  if r.2 != .notList && (!strict || r.1.r1 < 4) then r else (r.1, .notList)

/-- parser.calcListOffset (list.go:91-103); `lineOffset` = the column at which `source` starts (since 3fb40b2 tab
    stops are counted from the start of the line, not from the start of the peeked remainder) -/
def calcListOffset (source : Bytes) (m : M6) (lineOffset : Int) : Except Panic Int := do
  if m.r4 < 0 then return 1
  let tail ← sliceFrom source m.r4
  if isBlank tail then return 1
  let w := (indentWidthI tail (lineOffset + m.r4)).1
  return (if w > 4 then 1 else w)

/-- parser.lastOffset (list.go:108-114) on a non-nil node -/
def lastOffset (node : Nat) : M Int := do
  let n ← getNode node
  match n.children.getLast? with
  | none => return 0
  | some lc =>
    let c ← getNode lc
    if c.kind != .listItem then throw .assert      -- lastChild.(*ast.ListItem)
    return c.offset

/-- `strconv.Atoi` on 1..9 decimal digits -/
def atoiDigits (ds : Bytes) : Int := (digitsVal 10 ds : Nat)

/-- List.IsOrdered (ast/block.go) -/
def markerOrdered (m : UInt8) : Bool := m == 46 || m == 41

/-! ### list.go: the parser -/

/-- listParser.Open (list.go:131-163) -/
def listOpen (parent : Nat) : M (Option Nat × PState) := do
  let last ← lastOpenedBlock
  let lastNode : Option Node ← match last with
    | some lb => do pure (some (← getNode lb.node))
    | none => pure none
  let lok := match lastNode with | some n => n.kind == .list | none => false
  if lok || (← getPc).skipList then
    modPc fun pc => { pc with skipList := false }
    return (none, stNoChildren)
  let (line, _) ← peekLine
  let line := line.getD []
  let (m, typ) := matchesListItem line true
  if typ == .notList then return (none, stNoChildren)
  let mut start : Int := -1
  if typ == .ordered then
    let number ← liftE (slice line m.r2 (m.r3 - 1))
    start := atoiDigits number
  let lastIsParaOfParent := match lastNode with
    | some n => n.kind == Kind.paragraph && n.parent == some parent
    | none => false
  if lastIsParaOfParent then
    if typ == ListTyp.ordered && start != 1 then return (none, stNoChildren)
    if m.r4 < 0 then return (none, stNoChildren)
    if isBlank (← liftE (slice line m.r4 m.r5)) then return (none, stNoChildren)
  let marker ← liftE (idx line (m.r3 - 1))
  let node ← newNode { kind := .list, marker := marker, start := if start > -1 then start else 0 }
  modPc fun pc => { pc with emptyItemBlank := false }
  return (some node, stHasChildren)

/-- `node.LastChild().ChildCount()` -/
def lastChildCount (node : Nat) : M Int := do
  let n ← getNode node
  match n.children.getLast? with
  | none => throw .nil
  | some lc => return ((← getNode lc).children.length : Int)

/-- listParser.Continue (list.go:165-245) -/
def listContinue (node : Nat) : M PState := do
  let list ← getNode node
  let (line, _) ← peekLine
  let line := line.getD []
  if isBlank line then
    if (← lastChildCount node) == 0 then
      modPc fun pc => { pc with emptyItemBlank := true }
    return stContinueHasChildren
  let offset ← lastOffset node
  let lastIsEmpty := (← lastChildCount node) == 0
  let (indent, _) := indentWidthI line (← lineOffset)
  if indent < offset || lastIsEmpty then
    if indent < 4 then
      let (m, typ) := matchesListItem line false
      if typ != .notList && m.r1 - offset < 4 then
        let marker ← liftE (idx line (m.r3 - 1))
        -- List.CanContinue
        if !(marker == list.marker && (typ == .ordered) == markerOrdered list.marker) then return stClose
        let tail ← liftE (sliceFrom line (m.r3 - 1))
        if isThematicBreak tail 0 then
          let mut isHeading := false
          let lastIsPara ← match ← lastOpenedBlock with
            | some lb => do pure ((← getNode lb.node).kind == .paragraph)
            | none => pure false
          if lastIsPara then
            let (c, ok) ← liftE (matchesSetextHeadingBar tail)
            if ok && c == 45 then isHeading := true
          if !isHeading then return stClose
        return stContinueHasChildren
    if !lastIsEmpty then return stClose
  if lastIsEmpty && indent < offset then return stClose
  if (← getPc).emptyItemBlank then return stClose
  return stContinueHasChildren

/-- list.go:250-264, one iteration for the item `c`: does it make the list loose?
    (`first` = `c == node.FirstChild()`) -/
def itemLoose (nodes : List Node) (first : Bool) (c : Nat) : Bool :=
  let cn := nodes.getD c default
  ((cn.children.drop 1).any fun c1 => (nodes.getD c1 default).blankPrev) || (!first && cn.blankPrev)

/-- the loop list.go:250-264 over the items: the final `list.IsTight` -/
def listTight (nodes : List Node) (tight : Bool) : List Nat → Bool → Bool
  | [], _ => tight
  | c :: cs, first =>
    if !tight then tight
    else listTight nodes (!itemLoose nodes first c) cs false

/-- list.go:268-276: the grandchildren `gcs` of the item `child` -/
def tightenItem (child : Nat) : List Nat → M Unit
  | [] => pure ()
  | gc :: gcs => do
    let g ← getNode gc
    if g.kind == .paragraph then
      let tb ← newNode { kind := .textBlock, lines := g.lines, linesNil := g.linesNil }
      replaceChild child gc tb
    tightenItem child gcs

/-- list.go:267-277 -/
def tightenItems : List Nat → M Unit
  | [] => pure ()
  | child :: rest => do
    tightenItem child (← getNode child).children
    tightenItems rest

/-- listParser.Close (list.go:247-279) -/
def listClose (node : Nat) : M Unit := do
  let list ← getNode node
  let tight := listTight (← get).nodes list.tight list.children true
  modNode node fun n => { n with tight := tight }
  if tight then tightenItems list.children

/-! ### list_item.go -/

/-- listItemParser.Open (list_item.go:24-52) -/
def listItemOpen (parent : Nat) : M (Option Nat × PState) := do
  if (← getNode parent).kind != .list then return (none, stNoChildren)
  let offset ← lastOffset parent
  let (line, _) ← peekLine
  let line := line.getD []
  let (m, typ) := matchesListItem line false
  if typ == .notList then return (none, stNoChildren)
  if m.r1 - offset > 3 then return (none, stNoChildren)
  modPc fun pc => { pc with emptyItemBlank := false }
  let lineOff ← lineOffset
  let itemOffset ← liftE (calcListOffset line m lineOff)
  let node ← newNode { kind := .listItem, offset := m.r3 + itemOffset }
  if m.r4 < 0 then return (some node, stNoChildren)
  if isBlank (← liftE (slice line m.r4 m.r5)) then return (some node, stNoChildren)
  let (pos, padding) := indentPosition (← liftE (sliceFrom line m.r4)) (lineOff + m.r4) itemOffset
  let child := m.r3 + pos
  advanceAndSetPadding child padding
  return (some node, stHasChildren)

/-- listItemParser.Continue (list_item.go:54-78) -/
def listItemContinue (node : Nat) : M PState := do
  let (line, _) ← peekLine
  let line := line.getD []
  if isBlank line then
    advance ((line.length : Int) - 1)
    return stContinueHasChildren
  let n ← getNode node
  let offset ← match n.parent with
    | some p => lastOffset p
    | none => throw .nil                              -- lastOffset(nil): nil.LastChild()
  let isEmpty := n.children.length == 0 && (← getPc).emptyItemBlank
  let lo ← lineOffset
  let (indent, _) := indentWidthI line lo
  if (isEmpty || indent < offset) && indent < 4 then
    let (_, typ) := matchesListItem line true
    if typ != .notList then
      modPc fun pc => { pc with skipList := true }
      return stClose
    if !isEmpty then return stClose
  let (pos, padding) := indentPosition line lo offset
  advanceAndSetPadding pos padding
  return stContinueHasChildren

end GM.Blocks
