/-
  GM.Model.Blocks.Indep — the first half of C09 AT THE BLOCK-TREE LEVEL as an executable check: for documents
  `a`, `b` and a one-line heading text `h`, the block tree of

      doc = a ++ sep a ++ "# " ++ h ++ "\n" ++ "\n" ++ b

  (`sep a` ends the last line of `a`, if it is unfinished, and adds one blank line) is a Document whose children
  are: the children of the Document of `a`, then the one Heading of `"# " ++ h ++ "\n"` with its segments moved by
  `|a ++ sep a|`, then the children of the Document of `b` with every segment moved by `|a ++ sep a ++ "# h\n\n"|`.
  "What comes after a closed block cannot change how it was parsed, and vice versa."  Core Lean only.

  Side conditions (the statement answers `none` when one fails; they are the property's own provisos):
  * no `[` (link reference syntax) and no CR in `a`, `b` (the property quantifies over CR-free documents);
    no `\n` and no CR in `h`;
  * `"# " ++ h ++ "\n"` alone is exactly one level-1 Heading (true for every such `h`; decided, not assumed);
  * `a` does not end inside a fenced code block, an indented code block or an HTML block: decided ON THE TREE of
    `a` — the deepest last block (follow last children from the Document) is none of the three kinds. This is the
    test the HTML-level search (`indep`) has always used; it is conservative (a *closed* fenced code or HTML block
    at the very end of `a` also answers `none`).
  `HasBlankPreviousLines` is compared exactly where the block phase reads it (`Tree.readBlank`, as in QuoteSim).
-/
import GM.Model.Blocks.QuoteSim

namespace GM.Blocks
open GM GM.Text

/-- what is inserted after `a`: end its last line if it has no final `\n`, then one blank line -/
def indepSep (a : Bytes) : Bytes :=
  if a.isEmpty || a.getLast? == some 10 then [10] else [10, 10]

/-- the ATX heading line `# h\n` -/
def headingLine (h : Bytes) : Bytes := [35, 32] ++ h ++ [10]

/-- `A`, a blank line, the heading line, a blank line, `B` -/
def indepDoc (a h b : Bytes) : Bytes := a ++ indepSep a ++ headingLine h ++ [10] ++ b

/-- move a segment by `k` bytes -/
def moveSeg (k : Int) (s : Segment) : Segment := { s with start := s.start + k, stop := s.stop + k }

/-- the kind of the deepest last block: follow last children from node `id` (`fuel` ≥ depth) -/
def lastLeafKindOf (nodes : List Node) : Nat → Nat → Kind
  | 0, id => (nodes.getD id default).kind
  | fuel + 1, id =>
    let n := nodes.getD id default
    match n.children.getLast? with
    | none => n.kind
    | some c => lastLeafKindOf nodes fuel c

/-- `a` ends inside a code / fenced code / HTML block (tree criterion, see the file comment) -/
def endsInRawBlock (s : St) : Bool :=
  let k := lastLeafKindOf s.nodes s.nodes.length 0
  k == .codeBlock || k == .fencedCodeBlock || k == .htmlBlock

/-- the byte-level provisos -/
def indepBytesOK (a h b : Bytes) : Bool :=
  !(a.any fun c => c == 91 || c == 13) && !(b.any fun c => c == 91 || c == 13) &&
  !(h.any fun c => c == 10 || c == 13)

/-- the children of the Document of a final state -/
def docKids (s : St) : Node × List Tree :=
  match treeOf s.nodes s.nodes.length 0 with
  | .node d kids => (d, kids)

/-- is this the tree list `[Heading(level 1, no children)]`? -/
def isOneH1 : List Tree → Bool
  | [.node n []] => n.kind == .heading && n.level == 1
  | _ => false

/-- `none` = the statement does not apply; `some (expected, got)` = the two canonical dumps the statement says
    are equal (a panic of the model on one of the four runs is reported on the side it belongs to, so that it
    makes the two strings differ) -/
def indepPair (a h b : Bytes) : Option (String × String) :=
  if !indepBytesOK a h b then none
  else
    match run a, run (headingLine h), run b with
    | .ok sa, .ok sh, .ok sb =>
      if endsInRawBlock sa then none
      else
        let (da, ka) := docKids sa
        let (_, kh) := docKids sh
        let (_, kb) := docKids sb
        if !isOneH1 kh then none
        else
          let k1 : Int := (a ++ indepSep a).length
          let k2 : Int := (a ++ indepSep a ++ headingLine h ++ [10]).length
          let expected :=
            ((Tree.node da (ka ++ Tree.mapSegsL (moveSeg k1) kh ++ Tree.mapSegsL (moveSeg k2) kb)).readBlank false).str
          match run (indepDoc a h b) with
          | .error e => some (expected, "joined:" ++ e.str)
          | .ok sd => some (expected, ((treeOf sd.nodes sd.nodes.length 0).readBlank false).str)
    | .error e, _, _ => some ("a:" ++ e.str, "")
    | _, .error e, _ => some ("h:" ++ e.str, "")
    | _, _, .error e => some ("b:" ++ e.str, "")

/-- `ok` / `n-a` / `fail …` -/
def indepCheck (a h b : Bytes) : String :=
  match indepPair a h b with
  | none => "n-a"
  | some (e, g) => if e == g then "ok" else "fail:indep-tree " ++ e ++ " <> " ++ g

end GM.Blocks
