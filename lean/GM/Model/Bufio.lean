/-
  GM.Model.Bufio — model of the output path of `Render`/`Convert` (property C14). Core Lean only.

  * `Under`: the destination `io.Writer` with a fault model: `ok` (never fails), `short` (accepts `room` more
    bytes, then returns a short write together with the injected error, on that call and on every later one),
    `always` (returns `(0, err)` on every call). It records the bytes it accepted, whether it ever returned an
    error, and how often it was called.
  * `W`: Go's `bufio.Writer` (go1.23 src/bufio/bufio.go:579-790) as used by goldmark: `Flush`, `Write`, `WriteString`,
    `WriteByte`, `WriteRune`, with the sticky error, the large-write bypass on an empty buffer, the
    `io.StringWriter` fast path, the partial-flush `copy`, the "silly small buffer" branch of `WriteRune`.
    The buffer content `b.buf[0:b.n]` is kept REVERSED in `rbuf` (newest byte first) so that `WriteByte` is O(1)
    in the compiled model.
  * `render`: renderer/renderer.go:157-173 — `bufio.NewWriter(w)` unless `w` is a `util.BufWriter`, the node
    renderers' calls (an arbitrary list: they ignore every per-write result, renderer/html/html.go `_, _ = w.Write…`),
    an optional node-renderer error after `j` calls (early `return err`, no Flush), else `return writer.Flush()`.
  * `convert`: markdown.go:115-119.
-/
import GM.Model.Basic
import GM.Model.Utf8

namespace GM.Bufio

inductive Err | injected | shortWrite | node
  deriving DecidableEq, Repr

inductive Mode | ok | short | always
  deriving DecidableEq, Repr

/-- the destination writer (fault-injecting). -/
structure Under where
  mode : Mode
  room : Nat            -- `short`: number of bytes still accepted
  sw : Bool             -- implements io.StringWriter (same fault behaviour for WriteString)
  racc : Bytes := []    -- bytes accepted so far, REVERSED (newest first; O(|p|) per call in the compiled model)
  failed : Bool := false -- has returned a non-nil error at least once
  calls : Nat := 0

/-- the bytes the destination has accepted so far, in order. -/
def Under.acc (u : Under) : Bytes := u.racc.reverse

/-- a destination that has not been written to yet. -/
def Under.new (mode : Mode) (room : Nat) (sw : Bool) : Under := { mode := mode, room := room, sw := sw }

/-- one `Write`/`WriteString` call on the destination: (n, err, state after). -/
def Under.write (u : Under) (p : Bytes) : Nat × Option Err × Under :=
  match u.mode with
  | .ok => (p.length, none, { u with racc := p.reverse ++ u.racc, calls := u.calls + 1 })
  | .always => (0, some .injected, { u with failed := true, calls := u.calls + 1 })
  | .short =>
    if p.length ≤ u.room then
      (p.length, none, { u with racc := p.reverse ++ u.racc, room := u.room - p.length, calls := u.calls + 1 })
    else
      (u.room, some .injected, { u with racc := (p.take u.room).reverse ++ u.racc, room := 0, failed := true, calls := u.calls + 1 })

/-- `bufio.Writer` over `Under`. -/
structure W where
  size : Nat                 -- len(b.buf)
  rbuf : Bytes := []         -- b.buf[0:b.n], reversed
  n : Nat := 0               -- b.n  (= rbuf.length, `Proof.Bufio.Inv`; kept so that the compiled model is O(1) here)
  err : Option Err := none   -- b.err (sticky)
  u : Under
  panicked : Bool := false   -- index out of range in WriteByte (only a zero-size buffer can do that)
  starved : Bool := false    -- a loop of the model ran out of fuel (never: `Proof.Bufio.run_not_starved`)

def W.buffered (w : W) : Nat := w.n
def W.available (w : W) : Nat := w.size - w.n

/-- `(*Writer).Flush` : the new state and the returned error. -/
def W.flush (w : W) : W × Option Err :=
  match w.err with
  | some e => (w, some e)
  | none =>
    if w.n == 0 then (w, none) else
    let r := w.u.write w.rbuf.reverse          -- n, err := b.wr.Write(b.buf[0:b.n])
    let e := if r.1 < w.n && r.2.1.isNone then some Err.shortWrite else r.2.1
    match e with
    | some e => ({ w with rbuf := (w.rbuf.reverse.drop r.1).reverse, n := w.n - r.1, err := some e, u := r.2.2 }, some e)
    | none => ({ w with rbuf := [], n := 0, u := r.2.2 }, none)

/-- the loop of `Write` (`str = false`) and `WriteString` (`str = true`):
    `for len(p) > b.Available() && b.err == nil { … }`; returns the state and the unconsumed rest of `p`. -/
def W.writeLoop (str : Bool) : Nat → W → Bytes → W × Bytes
  | 0, w, p => if p.length > w.available && w.err.isNone then ({ w with starved := true }, p) else (w, p)
  | fuel + 1, w, p =>
    if p.length > w.available && w.err.isNone then
      if w.buffered == 0 && (!str || w.u.sw) then
        -- large write, empty buffer: written directly (`n, b.err = b.wr.Write(p)`)
        let r := w.u.write p
        W.writeLoop str fuel { w with err := r.2.1, u := r.2.2 } (p.drop r.1)
      else
        -- n = copy(b.buf[b.n:], p); b.n += n; b.Flush()
        let n := w.available
        let w1 := { w with rbuf := (p.take n).reverse ++ w.rbuf, n := w.n + n }
        W.writeLoop str fuel w1.flush.1 (p.drop n)
    else (w, p)

/-- `Write` / `WriteString` (the returned count is ignored by every caller and is not modelled). -/
def W.writeGen (str : Bool) (w : W) (p : Bytes) : W :=
  let r := W.writeLoop str (2 * p.length + 2) w p
  if r.1.err.isSome || r.1.starved then r.1 else { r.1 with rbuf := r.2.reverse ++ r.1.rbuf, n := r.1.n + r.2.length }

def W.write (w : W) (p : Bytes) : W := w.writeGen false p
def W.writeString (w : W) (s : Bytes) : W := w.writeGen true s

/-- `WriteByte` -/
def W.writeByte (w : W) (c : UInt8) : W :=
  if w.err.isSome then w else
  let w1 := if w.available ≤ 0 then w.flush.1 else w
  if w.available ≤ 0 && w1.err.isSome then w1
  else if w1.n < w1.size then { w1 with rbuf := c :: w1.rbuf, n := w1.n + 1 }
  else { w1 with panicked := true }       -- b.buf[b.n] = c with b.n == len(b.buf)

/-- bytes of `string(r)` / `utf8.EncodeRune(r)`; a negative rune is invalid. -/
def runeBytes (r : Int) : Bytes := if r < 0 then [0xEF, 0xBF, 0xBD] else encodeRune r.toNat

/-- `WriteRune` -/
def W.writeRune (w : W) (r : Int) : W :=
  if 0 ≤ r && r < 128 then w.writeByte (UInt8.ofNat r.toNat)
  else if w.err.isSome then w
  else if w.available < 4 then
    let w1 := w.flush.1
    if w1.err.isSome then w1
    else if w1.available < 4 then w1.writeString (runeBytes r)   -- "silly small" buffer
    else { w1 with rbuf := (runeBytes r).reverse ++ w1.rbuf, n := w1.n + (runeBytes r).length }
  else { w with rbuf := (runeBytes r).reverse ++ w.rbuf, n := w.n + (runeBytes r).length }

/-- one call made by a node renderer on its `util.BufWriter` argument. -/
inductive Call
  | write (p : Bytes) | writeString (s : Bytes) | writeByte (c : UInt8) | writeRune (r : Int)

/-- the bytes the call is meant to output. -/
def Call.bytes : Call → Bytes
  | .write p => p
  | .writeString s => s
  | .writeByte c => [c]
  | .writeRune r => runeBytes r

def W.step (w : W) : Call → W
  | .write p => if w.panicked then w else w.write p
  | .writeString s => if w.panicked then w else w.writeString s
  | .writeByte c => if w.panicked then w else w.writeByte c
  | .writeRune r => if w.panicked then w else w.writeRune r

def W.run (w : W) (cs : List Call) : W := cs.foldl W.step w

/-- all bytes a call list is meant to output. -/
def allBytes (cs : List Call) : Bytes := cs.flatMap Call.bytes

/-- `bufio.NewWriter(u)` -/
def fresh (size : Nat) (u : Under) : W := { size := size, u := u }

/-- the part of `Render` after the renderer tables are built, on the `BufWriter` `w`:
    `err := ast.Walk(…)` — the node renderers make `calls`; if `nodeErr = some j` a node renderer returns an
    error after the first `j` calls and `Render` returns it at once; otherwise `return writer.Flush()`. -/
def renderOn (w : W) (calls : List Call) (nodeErr : Option Nat) : W × Option Err :=
  match nodeErr with
  | some j => (w.run (calls.take j), some .node)
  | none => (w.run calls).flush

/-- the destination handed to `Render`. -/
inductive Dest
  | plain (u : Under)   -- any io.Writer that is not a util.BufWriter: wrapped by bufio.NewWriter (4096 bytes)
  | buf (w : W)         -- a caller-supplied util.BufWriter (a bufio.Writer of any size, in any state)

/-- how a destination built on the fresh writer `u0` reaches `Render`, and which calls the caller has already
    made on it: either `u0` itself (not a BufWriter; no earlier calls), or a caller-made `bufio.NewWriterSize(u0, size)`
    (`size > 0`: NewWriterSize replaces a non-positive size by 4096) on which the caller already made the calls `pre`. -/
inductive Dest.From (u0 : Under) : Dest → List Call → Prop
  | wrapped : Dest.From u0 (.plain u0) []
  | supplied (size : Nat) (hsize : 0 < size) (pre : List Call) : Dest.From u0 (.buf ((fresh size u0).run pre)) pre

def render (d : Dest) (calls : List Call) (nodeErr : Option Nat) : W × Option Err :=
  match d with
  | .plain u => renderOn (fresh 4096 u) calls nodeErr
  | .buf w => renderOn w calls nodeErr

/-- `Convert`: parse, then `return m.renderer.Render(writer, source, doc)`. What the node renderers do with
    the parsed document is a parameter (`rend`). -/
def convert {Doc : Type} (parse : Bytes → Doc) (rend : Doc → List Call × Option Nat) (src : Bytes) (d : Dest) :
    W × Option Err :=
  let doc := parse src
  render d (rend doc).1 (rend doc).2

end GM.Bufio
