/-
  GM.Model.Util — hand-written model of util/util.go's byte transformers, mirroring the Go code branch by
  branch in "rest of input" style (a Go loop that rewinds its index becomes: emit, continue with the rest).
  Tables come from GM.Gen (regenerated from /repo on every run). Core Lean only.
-/
import GM.Model.ByteClass
import GM.Model.Utf8
import GM.Gen.Entities
import GM.Gen.CaseFold

namespace GM

/-! ### helpers -/

/-- longest prefix satisfying `p`, and the rest (Go's `ReadWhile`) -/
def spanB (p : UInt8 → Bool) : Bytes → Bytes × Bytes
  | [] => ([], [])
  | c :: cs => if p c then ((spanB p cs).1 |> (c :: ·), (spanB p cs).2) else ([], c :: cs)

theorem spanB_len (p : UInt8 → Bool) (l : Bytes) : (spanB p l).2.length ≤ l.length := by
  induction l with
  | nil => simp [spanB]
  | cons c cs ih => simp only [spanB]; split <;> simp <;> omega

theorem spanB_append (p : UInt8 → Bool) (l : Bytes) : (spanB p l).1 ++ (spanB p l).2 = l := by
  induction l with
  | nil => simp [spanB]
  | cons c cs ih => simp only [spanB]; split <;> simp [ih]

def entityTable : List (Bytes × Bytes) := Gen.entityChunks.flatten
def foldTable : List (Nat × List Nat) := Gen.foldChunks.flatten

/-- util.LookUpHTML5EntityByName (characters only) -/
def lookupEntity (name : Bytes) : Option Bytes := entityTable.lookup name
/-- util.unicodeCaseFoldings[r] -/
def lookupFold (r : Nat) : Option (List Nat) := foldTable.lookup r

/-! ### EscapeHTML / UnescapePunctuations -/

def escByte (c : UInt8) : Bytes := if (htmlEsc c).isEmpty then [c] else htmlEsc c

/-- util.EscapeHTML -/
def escapeHTML (v : Bytes) : Bytes := v.flatMap escByte

/-- util.UnescapePunctuations -/
def unescapePunct : Bytes → Bytes
  | [] => []
  | [c] => [c]
  | c :: d :: rest =>
    if c == 92 && isPunct d then d :: unescapePunct rest else c :: unescapePunct (d :: rest)

/-! ### numeric and named references -/

def hexVal (c : UInt8) : Nat :=
  if isNumeric c then c.toNat - 48 else if 97 ≤ c && c ≤ 102 then c.toNat - 87 else c.toNat - 55

/-- exact value of a digit string in `base` (Go saturates at 2^32-1 with ErrRange; callers only look at
    the value through `runeOfUint32`, for which saturation and exactness agree). -/
def digitsVal (base : Nat) (ds : Bytes) : Nat := ds.foldl (fun acc d => acc * base + hexVal d) 0

/-- strconv.ParseUint(s, 16, 32), error ignored -/
def parseUintHex (ds : Bytes) : Nat := min (digitsVal 16 ds) 4294967295

/-- strconv.ParseUint(s, 0, 32) on a non-empty decimal digit string, error ignored:
    a leading `0` selects base 8, and a digit ≥ 8 is then a syntax error (value 0). -/
def parseUintBase0 (ds : Bytes) : Nat :=
  match ds with
  | 48 :: tl => if tl.all (fun d => d < 56) then min (digitsVal 8 tl) 4294967295 else 0
  | _ => min (digitsVal 10 ds) 4294967295

/-- `ToValidRune(rune(v))` for a uint64 `v < 2^32` converted to int32 -/
def runeOfUint32 (v : Nat) : Nat := if v ≥ 2147483648 then 0xFFFD else toValidRune v

/-- After `&`: try `#x<hex>;` / `#<dec>;` as util.ResolveNumericReferences does. -/
def tryNumRef (rest : Bytes) : Option (Bytes × Bytes) :=
  match rest with
  | 35 :: nc :: r2 =>
    if nc == 120 || nc == 88 then
      match (spanB isHex r2).2 with
      | 59 :: r4 =>
        if (spanB isHex r2).1.isEmpty then none
        else some (encodeRune (runeOfUint32 (parseUintHex (spanB isHex r2).1)), r4)
      | _ => none
    else if isNumeric nc then
      match (spanB isNumeric (nc :: r2)).2 with
      | 59 :: r4 =>
        if (spanB isNumeric (nc :: r2)).1.length < 8 then
          some (encodeRune (runeOfUint32 (parseUintBase0 (spanB isNumeric (nc :: r2)).1)), r4)
        else none
      | _ => none
    else none
  | _ => none

theorem tryNumRef_len {rest out r : Bytes} (h : tryNumRef rest = some (out, r)) : r.length < rest.length := by
  unfold tryNumRef at h
  split at h
  · rename_i nc r2
    split at h
    · split at h
      · rename_i r4 heq
        have := spanB_len isHex r2
        split at h
        · cases h
        · cases h; simp [heq] at this; simp; omega
      · cases h
    · split at h
      · split at h
        · rename_i r4 heq
          have := spanB_len isNumeric (nc :: r2)
          split at h
          · cases h; simp [heq] at this; simp; omega
          · cases h
        · cases h
      · cases h
  · cases h

/-- util.ResolveNumericReferences -/
def resolveNumeric : Bytes → Bytes
  | [] => []
  | c :: cs =>
    if c == 38 then
      match h : tryNumRef cs with
      | some (out, rest) => out ++ resolveNumeric rest
      | none => c :: resolveNumeric cs
    else c :: resolveNumeric cs
termination_by l => l.length
decreasing_by
  all_goals simp_wf
  · have := tryNumRef_len h; omega

/-- After `&` (next byte not `#`): `<alnum>+;` looked up in the HTML5 entity table. -/
def tryEntity (rest : Bytes) : Option (Bytes × Bytes) :=
  match rest with
  | 35 :: _ => none
  | _ =>
    match (spanB isAlnum rest).2 with
    | 59 :: r4 =>
      if (spanB isAlnum rest).1.isEmpty then none
      else (lookupEntity (spanB isAlnum rest).1).map (fun cs => (cs, r4))
    | _ => none

theorem tryEntity_len {rest out r : Bytes} (h : tryEntity rest = some (out, r)) : r.length < rest.length := by
  unfold tryEntity at h
  split at h
  · cases h
  · split at h
    · rename_i r4 heq
      have := spanB_len isAlnum rest
      split at h
      · cases h
      · simp [Option.map] at h
        split at h
        · cases h; simp [heq] at this; omega
        · cases h
    · cases h

/-- util.ResolveEntityNames -/
def resolveEntities : Bytes → Bytes
  | [] => []
  | c :: cs =>
    if c == 38 then
      match h : tryEntity cs with
      | some (out, rest) => out ++ resolveEntities rest
      | none => c :: resolveEntities cs
    else c :: resolveEntities cs
termination_by l => l.length
decreasing_by
  all_goals simp_wf
  · have := tryEntity_len h; omega

/-! ### URLEscape -/

def upperHex (n : UInt8) : UInt8 := if n < 10 then 48 + n else 55 + n

/-- one byte of Go's url.QueryEscape -/
def qeByte (c : UInt8) : Bytes :=
  if isAlnum c || c == 45 || c == 95 || c == 46 || c == 126 then [c]
  else if c == 32 then [43]
  else [37, upperHex (c >>> 4), upperHex (c &&& 15)]

def queryEscape (b : Bytes) : Bytes := b.flatMap qeByte

/-- `%` followed by two hex digits at the head of `c :: cs` -/
def pctTriple (c : UInt8) (cs : Bytes) : Option (UInt8 × UInt8 × Bytes) :=
  if c == 37 then
    match cs with
    | a :: b :: rest => if isHex a && isHex b then some (a, b, rest) else none
    | _ => none
  else none

theorem pctTriple_len {c : UInt8} {cs : Bytes} {a b : UInt8} {rest : Bytes}
    (h : pctTriple c cs = some (a, b, rest)) : cs = a :: b :: rest := by
  unfold pctTriple at h
  split at h
  · split at h
    · split at h
      · cases h; rfl
      · cases h
    · cases h
  · cases h

theorem length_dropWhile_le (p : UInt8 → Bool) (l : Bytes) : (l.dropWhile p).length ≤ l.length := by
  induction l with
  | nil => simp
  | cons c cs ih => simp only [List.dropWhile]; split <;> simp <;> omega

/-- the main loop of util.URLEscape, as the bytes written once the copy-on-write buffer has been copied;
    `total` is `len(v)` (the code compares the rune width with it). -/
def urlEscapeLoop (total : Nat) : Bytes → Bytes
  | [] => []
  | c :: cs =>
    if urlSafe c then c :: urlEscapeLoop total cs
    else
      match h : pctTriple c cs with
      | some (a, b, rest) => c :: a :: b :: urlEscapeLoop total rest
      | none =>
        if utf8len c == 99 then c :: urlEscapeLoop total cs
        else if c == 32 then 37 :: 50 :: 48 :: urlEscapeLoop total cs
        else if (if utf8len c > total then total - 1 else utf8len c) == 0 then urlEscapeLoop total cs
        else if (if utf8len c > total then total - 1 else utf8len c) > cs.length + 1 then urlEscapeLoop total cs
        else
          queryEscape (c :: cs.take ((cs.take ((if utf8len c > total then total - 1 else utf8len c) - 1)).takeWhile isCont).length) ++
            urlEscapeLoop total (cs.drop ((cs.take ((if utf8len c > total then total - 1 else utf8len c) - 1)).takeWhile isCont).length)
termination_by l => l.length
decreasing_by
  all_goals simp_wf
  all_goals (try omega)
  · have := pctTriple_len h; subst this; simp; omega

/-- does the loop ever write to the copy-on-write buffer? (if not, URLEscape returns its input slice,
    and bytes the loop would have dropped are still there) -/
def urlCopies (total : Nat) : Bytes → Bool
  | [] => false
  | c :: cs =>
    if urlSafe c then urlCopies total cs
    else
      match h : pctTriple c cs with
      | some (_, _, rest) => urlCopies total rest
      | none =>
        if utf8len c == 99 then urlCopies total cs
        else if c == 32 then true
        else if (if utf8len c > total then total - 1 else utf8len c) == 0 then urlCopies total cs
        else true
termination_by l => l.length
decreasing_by
  all_goals simp_wf
  all_goals (try omega)
  · have := pctTriple_len h; subst this; simp; omega

/-- the escaping half of util.URLEscape (no reference resolution) -/
def urlEscapeRaw (v : Bytes) : Bytes :=
  if urlCopies v.length v then urlEscapeLoop v.length v else v

def isRefBodyByte (x : UInt8) : Bool := isAlnum x || x == 35

/-- util.unescapeAndResolve (since 65e7267): ONE pass over a link destination. `\` + punctuation gives the
    punctuation; `&` followed by alphanumerics/`#` and `;` is handed, as that one candidate, to
    ResolveNumericReferences and, if that leaves it alone, to ResolveEntityNames; whatever a step produces is
    final (never interpreted again). -/
def unescapeAndResolve : Bytes → Bytes
  | [] => []
  | [c] => [c]
  | c :: d :: rest0 =>
    if c == 92 && isPunct d then d :: unescapeAndResolve rest0
    else if c == 38 then
      match h : (d :: rest0).dropWhile isRefBodyByte with
      | 59 :: rest =>
        let ref := c :: ((d :: rest0).takeWhile isRefBodyByte ++ [59])
        let r := if resolveNumeric ref != ref then resolveNumeric ref else resolveEntities ref
        if r != ref then r ++ unescapeAndResolve rest else c :: unescapeAndResolve (d :: rest0)
      | _ => c :: unescapeAndResolve (d :: rest0)
    else c :: unescapeAndResolve (d :: rest0)
termination_by l => l.length
decreasing_by
  all_goals simp_wf
  all_goals (try omega)
  all_goals (have hl := length_dropWhile_le isRefBodyByte (d :: rest0); rw [h] at hl; simp at hl; omega)

/-- util.URLEscape -/
def urlEscape (v : Bytes) (resolveReference : Bool) : Bytes :=
  urlEscapeRaw (if resolveReference then unescapeAndResolve v else v)

/-! ### link-label normalisation -/

def trimLeftSpace (v : Bytes) : Bytes := v.dropWhile isTrimSpace
def trimRightSpace (v : Bytes) : Bytes := (v.reverse.dropWhile isTrimSpace).reverse

/-- util.DoFullUnicodeCaseFolding -/
def caseFold : Bytes → Bytes
  | [] => []
  | c :: cs =>
    if c < 0xb5 then (if 65 ≤ c && c ≤ 90 then c + 32 else c) :: caseFold cs
    else if !runeStart c then c :: caseFold cs
    else
      let d := decodeRune (c :: cs)
      if d.1 == runeError then c :: caseFold cs
      else match lookupFold d.1 with
        | none => c :: caseFold cs
        | some f => f.flatMap encodeRune ++ caseFold (cs.drop (d.2 - 1))
termination_by l => l.length
decreasing_by
  all_goals simp_wf
  all_goals omega

def replaceSpacesAll (repl : UInt8) : Bytes → Bytes
  | [] => []
  | c :: cs =>
    if isSpace c then repl :: replaceSpacesAll repl (cs.dropWhile isSpace) else c :: replaceSpacesAll repl cs
termination_by l => l.length
decreasing_by
  all_goals simp_wf
  · have := length_dropWhile_le isSpace cs; omega

/-- some space byte is directly followed by a non-space byte (only then does the Go code allocate) -/
def hasInnerRun : Bytes → Bool
  | [] => false
  | [_] => false
  | c :: d :: rest => (isSpace c && !isSpace d) || hasInnerRun (d :: rest)

/-- util.ReplaceSpaces (faithful: a document whose only run of spaces is trailing is returned unchanged) -/
def replaceSpaces (v : Bytes) (repl : UInt8) : Bytes :=
  if hasInnerRun v then replaceSpacesAll repl v else v

/-- util.ToLinkReference -/
def toLinkReference (v : Bytes) : Bytes :=
  replaceSpaces (caseFold (trimRightSpace (trimLeftSpace v))) 32

/-! ### small scanners -/

/-- util.TabWidth -/
def tabWidth (pos : Nat) : Nat := 4 - pos % 4

/-- util.IndentWidth: (width, pos) -/
def indentWidthGo (currentPos : Nat) : Bytes → Nat → Nat → Nat × Nat
  | [], w, p => (w, p)
  | b :: bs, w, p =>
    if b == 32 then indentWidthGo currentPos bs (w + 1) (p + 1)
    else if b == 9 then indentWidthGo currentPos bs (w + tabWidth (currentPos + w)) (p + 1)
    else (w, p)
def indentWidth (bs : Bytes) (currentPos : Nat) : Nat × Nat := indentWidthGo currentPos bs 0 0

/-- util.FirstNonSpacePosition (-1 encoded as none) -/
def firstNonSpacePosition : Bytes → Nat → Option Nat
  | [], _ => none
  | c :: cs, i =>
    if c == 32 || c == 9 then firstNonSpacePosition cs (i + 1) else if c == 10 then none else some i

/-- util.TrimLeftSpaceLength / TrimRightSpaceLength (these use IsSpace, not the `spaces` set) -/
def trimLeftSpaceLength (v : Bytes) : Nat := (v.takeWhile isSpace).length
def trimRightSpaceLength (v : Bytes) : Nat := (v.reverse.takeWhile isSpace).length

/-- util.IsBlank -/
def isBlank (v : Bytes) : Bool := v.all isSpace

/-! ### renderer/html: IsDangerousURL -/

def lowerAscii (c : UInt8) : UInt8 := if 65 ≤ c && c ≤ 90 then c + 32 else c

/-- html.hasPrefix for an ASCII lower-case `prefix` (bytes.ToLower on a slice containing a non-ASCII byte can
    never equal an ASCII prefix of the same length, so ASCII lowering decides it). -/
def hasPrefixFold (s pre : Bytes) : Bool :=
  s.length ≥ pre.length && (s.take pre.length).map lowerAscii == pre

def bDataImage : Bytes := strBytes "data:image/"
def bJs : Bytes := strBytes "javascript:"
def bVb : Bytes := strBytes "vbscript:"
def bFile : Bytes := strBytes "file:"
def bData : Bytes := strBytes "data:"
def imageTypes : List Bytes := [strBytes "png;", strBytes "gif;", strBytes "jpeg;", strBytes "webp;", strBytes "svg+xml;"]

/-- html.IsDangerousURL -/
def isDangerousURL (url : Bytes) : Bool :=
  if hasPrefixFold url bDataImage && url.length ≥ 11 then
    !(imageTypes.any (hasPrefixFold (url.drop 11)))
  else hasPrefixFold url bJs || hasPrefixFold url bVb || hasPrefixFold url bFile || hasPrefixFold url bData

end GM
