/-
  GM.Model.ConvertL — GM.ConvertX.convertX (member sets of {Strikethrough, TaskList, Table}) extended by extension.Linkify:
  `GCfg = {base : XCfg, linkify : Bool}`; `convertL` for `goldmark.New(goldmark.WithExtensions(members…))` with Linkify among
  them; all four on = `extension.GFM` (gfm.go:13-18 calls exactly `Linkify.Extend`, `Table.Extend`, `Strikethrough.Extend`,
  `TaskList.Extend`; GM.Props.C11.facts_gfm_members ties that to the source).

    linkify.go:311-317  Extend: one inline parser, priority 999 — behind every other parser of the entries of its trigger bytes
                        `' ' * _ ~ (` (parser.go:778-793); no paragraph / AST transformer, no node renderer
    the inline phase    GM.Inl.lineLoopX over `inlineTblL`; everything else is GM.Model.ConvertX with the member set `base`

  With `linkify = false` every definition is the one of GM.Model.ConvertX (GM.Props.ConvertL.convertl_off_is_convertx).
  Decoding of the Protocol flag (GM.Model.ExtLinkify) only with the member on. Core Lean only.
-/
import GM.Model.ConvertX
import GM.Model.ExtLinkify

namespace GM.ConvertX
open GM GM.Text GM.Convert

structure GCfg where
  base : XCfg := {}
  linkify : Bool := false
  deriving Repr, DecidableEq

/-- `p.inlineParsers[b]` with Linkify (priority 999) behind the entry of the member set `base` -/
def inlineTblL (c : GCfg) (inItem : Bool) (b : UInt8) : List GM.Inl.XIp :=
  inlineTbl c.base inItem b ++ (if c.linkify && GM.Ext.linkifyStrip b then [.ext GM.Inl.linkifyParser] else [])

def inlineLinesL (c : GCfg) (guard : Bool) (env : GM.Inl.Env) (src : Bytes) (inItem : Bool) (lines : List Segment) :
    Except Err (List GM.Inl.Node) :=
  if lines.isEmpty then .ok []
  else if guard && !GM.LinkRef.wf0B src lines then .error .linesNotWF0
  else liftErr .inlines (parseBlockG env (inlineTblL c inItem) (pdX c.base) src lines)

def inlinePhaseL (c : GCfg) (guard : Bool) (env : GM.Inl.Env) (src : Bytes) (inItem : Bool) (n : GM.Blocks.Node) :
    Except Err (List GM.Inl.Node) :=
  if isRawKind n.kind then .ok []
  else if c.base.table && GM.TableX.isRowNode src n then .ok []
  else if c.base.table && guard && GM.TableX.isCellNode src n && n.lines.all (fun s => s.start == s.stop && s.padding == 0) then
    .ok []
  else inlineLinesL c guard env src inItem n.lines

def protoHTTPPrefix : Bytes := [104, 116, 116, 112, 58, 47, 47]       -- "http://"

mutual
/-- GM.ConvertX.inlineTreeX + `AutoLink.URL()` with `Protocol = "http"` (ast/inline.go: Protocol, "://", the value) -/
def inlineTreeL (c : GCfg) (src : Bytes) : GM.Inl.Node → Except Panic GM.Node
  | .text seg soft hard raw => do
    let v ← seg.value src
    pure (.mk (.text v soft hard raw false) none [])
  | .codeSpan kids => do pure (.mk .codeSpan none (← inlineTreesL c src kids))
  | .emphasis lv kids => do
    let cs ← inlineTreesL c src kids
    if c.base.strikethrough && (lv == -3 || lv == -4) then pure (.mk .strikethrough none cs)
    else if c.base.tasklist && lv == -1 then pure (.mk (.taskCheckBox false) none cs)
    else if c.base.tasklist && lv == -2 then pure (.mk (.taskCheckBox true) none cs)
    else pure (.mk (.emphasis lv.toNat) none cs)
  | .link im d t kids => do
    let cs ← inlineTreesL c src kids
    pure (.mk (if im then .image d t else .link d t) none cs)
  | .autoLink email seg =>
    if c.linkify && seg.forceNewline then do
      let v ← ({ seg with forceNewline := false } : Segment).value src
      pure (.mk (.autoLink email (protoHTTPPrefix ++ v) v) none [])
    else do
      let v ← seg.value src
      pure (.mk (.autoLink email v v) none [])
  | .rawHTML segs => do pure (.mk (.rawHTML (← segValues src segs)) none [])
  | .delim _ _ => pure (.mk .other none [])
  | .label _ _ _ => pure (.mk .other none [])
def inlineTreesL (c : GCfg) (src : Bytes) : List GM.Inl.Node → Except Panic (List GM.Node)
  | [] => pure []
  | n :: rest => do
    let t ← inlineTreeL c src n
    let ts ← inlineTreesL c src rest
    pure (t :: ts)
end

mutual
def docTreeL (c : GCfg) (guard : Bool) (env : GM.Inl.Env) (src : Bytes) (escs : List Int) (inItem : Bool) :
    GM.Blocks.Tree → Except Err GM.Node
  | .node n cs => do
    let bs ← docTreesL c guard env src escs (n.kind == .listItem) true cs
    let kids ← inlinePhaseL c guard env src inItem n
    let kids := if c.base.table && GM.TableX.isCellNode src n then GM.TableX.escNodes escs kids else kids
    let is ← liftErr .value (inlineTreesL c src kids)
    let k ← liftErr .value (blockKindX c.base src n)
    pure (.mk k none (bs ++ is))
def docTreesL (c : GCfg) (guard : Bool) (env : GM.Inl.Env) (src : Bytes) (escs : List Int) (parentIsItem first : Bool) :
    List GM.Blocks.Tree → Except Err (List GM.Node)
  | [] => pure []
  | t :: rest => do
    let x ← docTreeL c guard env src escs (parentIsItem && first) t
    let xs ← docTreesL c guard env src escs parentIsItem false rest
    pure (x :: xs)
end

def parseDocL (c : GCfg) (guard : Bool) (uc : List (Nat × (Bool × Bool))) (src : Bytes) : Except Err GM.Node := do
  let st ← liftErr .blocks (blockPhaseX c.base guard src)
  let env : GM.Inl.Env := { refs := st.pc.refs, uc := uc }
  let t := GM.Blocks.treeOf st.nodes st.nodes.length 0
  docTreeL c guard env src (if c.base.table then GM.TableX.escOfTree src t else []) false t

def convertLWith (c : GCfg) (guard : Bool) (uc : List (Nat × (Bool × Bool))) (o : ROpts) (src : Bytes) :
    Except Err Bytes := do
  let t ← parseDocL c guard uc src
  renderDocX c.base o t

/-- the model of `goldmark.New(goldmark.WithExtensions(members of c), goldmark.WithRendererOptions(o)).Convert` -/
def convertL (c : GCfg) (uc : List (Nat × (Bool × Bool))) (o : ROpts) (src : Bytes) : Except Err Bytes :=
  convertLWith c true uc o src

/-- extension.GFM: Linkify, Table, Strikethrough, TaskList -/
def gfmCfg : GCfg := { base := { strikethrough := true, tasklist := true, table := true }, linkify := true }

/-- the model of `goldmark.New(goldmark.WithExtensions(extension.GFM), …).Convert`: by gfm.go:13-18 the four members -/
def convertGFM (uc : List (Nat × (Bool × Bool))) (o : ROpts) (src : Bytes) : Except Err Bytes := convertL gfmCfg uc o src

/-! ### the consultation without the parser

  What is left of Linkify when its `Parse` returns nil: the inline loop still CONSULTS the entry of ' ', `*`, `_`, `~`, `(` —
  Advance over the pending bytes, the flush of the pending text into `parent` (parser.go:1203-1211), SetPosition — and so cuts
  the text into other Text nodes. `convertFlush` is `convertL` with `nullParser` in Linkify's place
  (GM.Props.ConvertL.convertl_linkify_is_flush: on a source without ':', '@', `www.` it IS `convertL` with Linkify).
  Go counterpart (harness, component `convertx`, op `htmlf`): an `InlineParser` with Linkify's `Trigger()` and priority whose
  `Parse` returns nil. -/

/-- a parser with Linkify's `Trigger()` that returns nil and touches nothing -/
def nullParser : GM.Inl.XParser := { triggers := GM.Inl.linkifyParser.triggers, parse := fun _ st => .ok (none, st) }

/-- `inlineTblL` with `nullParser` where Linkify stands -/
def flushTbl (c : XCfg) (inItem : Bool) (b : UInt8) : List GM.Inl.XIp :=
  inlineTbl c inItem b ++ (if GM.Ext.linkifyStrip b then [.ext nullParser] else [])

def inlineLinesF (c : XCfg) (guard : Bool) (env : GM.Inl.Env) (src : Bytes) (inItem : Bool) (lines : List Segment) :
    Except Err (List GM.Inl.Node) :=
  if lines.isEmpty then .ok []
  else if guard && !GM.LinkRef.wf0B src lines then .error .linesNotWF0
  else liftErr .inlines (parseBlockG env (flushTbl c inItem) (pdX c) src lines)

def inlinePhaseF (c : XCfg) (guard : Bool) (env : GM.Inl.Env) (src : Bytes) (inItem : Bool) (n : GM.Blocks.Node) :
    Except Err (List GM.Inl.Node) :=
  if isRawKind n.kind then .ok []
  else if c.table && GM.TableX.isRowNode src n then .ok []
  else if c.table && guard && GM.TableX.isCellNode src n && n.lines.all (fun s => s.start == s.stop && s.padding == 0) then
    .ok []
  else inlineLinesF c guard env src inItem n.lines

mutual
def docTreeF (c : XCfg) (guard : Bool) (env : GM.Inl.Env) (src : Bytes) (escs : List Int) (inItem : Bool) :
    GM.Blocks.Tree → Except Err GM.Node
  | .node n cs => do
    let bs ← docTreesF c guard env src escs (n.kind == .listItem) true cs
    let kids ← inlinePhaseF c guard env src inItem n
    let kids := if c.table && GM.TableX.isCellNode src n then GM.TableX.escNodes escs kids else kids
    let is ← liftErr .value (inlineTreesL { base := c, linkify := true } src kids)
    let k ← liftErr .value (blockKindX c src n)
    pure (.mk k none (bs ++ is))
def docTreesF (c : XCfg) (guard : Bool) (env : GM.Inl.Env) (src : Bytes) (escs : List Int) (parentIsItem first : Bool) :
    List GM.Blocks.Tree → Except Err (List GM.Node)
  | [] => pure []
  | t :: rest => do
    let x ← docTreeF c guard env src escs (parentIsItem && first) t
    let xs ← docTreesF c guard env src escs parentIsItem false rest
    pure (x :: xs)
end

def parseDocF (c : XCfg) (guard : Bool) (uc : List (Nat × (Bool × Bool))) (src : Bytes) : Except Err GM.Node := do
  let st ← liftErr .blocks (blockPhaseX c guard src)
  let env : GM.Inl.Env := { refs := st.pc.refs, uc := uc }
  let t := GM.Blocks.treeOf st.nodes st.nodes.length 0
  docTreeF c guard env src (if c.table then GM.TableX.escOfTree src t else []) false t

/-- `convertL` of member set `c` + Linkify with `nullParser` in Linkify's place in the trigger table -/
def convertFlush (c : XCfg) (uc : List (Nat × (Bool × Bool))) (o : ROpts) (src : Bytes) : Except Err Bytes := do
  let t ← parseDocF c true uc src
  renderDocX c o t


end GM.ConvertX
