/-
  GM.Model.ExtTableX — the ACCEPT path of extension.Table inside the composed model:

    extension/table.go:152-182   tableParagraphTransformer.Transform as a paragraph transformer of the block driver
                                 (`transformPT : GM.Blocks.PT`): the decision and the cells are GM.Table.transform's
                                 (GM.Model.Table: parseDelimiter, parseRow, the header guard, `SetSliced(0, i-1)`, the
                                 trimmed newline; tied by component `table`); here the nodes are built in the node store of
                                 the block phase: `ast.NewTable()`, `NewTableHeader(header)`, the rows and their cells,
                                 `node.Parent().InsertAfter(node.Parent(), node, table)`, `RemoveChild` of an emptied paragraph
    extension/table.go:215-235   the escaped-pipe positions recorded in the parse context (`escapedPipeCellListKey`)
    extension/table.go:291-336   tableASTTransformer.Transform: every Text child of a CodeSpan inside a recorded cell is cut at
                                 the recorded positions into raw Text segments without the backslash (`escNodes`)

  ENCODING. GM.Blocks.Kind (GM.Model.Blocks.Basic, not editable in this package) has no table kinds. The four node kinds are
  stored as nodes of kind `.thematicBreak` (a leaf kind the block driver never inspects) tagged in the field `htmlType`
  (unused by that kind, 0 on every ThematicBreak the block parsers make): 101 Table, 102 TableHeader, 103 TableRow,
  104 TableCell. A cell keeps its alignment in `level` (0 left, 1 right, 2 center, 3 none — the code of GM.Kind.tableCell)
  and its single line in `lines` (no line: `ast.NewTableCell()` of a short row). A TableHeader / TableRow has no lines in Go;
  its `lines` field holds the escaped-pipe positions recorded for its cells, as empty segments `(p, p)`: the part of the parse
  context list that belongs to this row (the block store has no other place for it). `kindOf` decodes the tags.
  WITNESS. Every node the transformer creates also carries, in the field `offset` (ListItem.Offset, unused by the kind), the
  index of the first '-' of the source (`dashAt`: a table exists only behind a delimiter row, which contains one), and
  `kindOf` decodes a tag only on a node whose `offset` points at a '-' of the source. The transformer's nodes always pass
  (the tie would show a table that is not rendered); what the witness buys is that on a source WITHOUT '-' no node decodes
  as a table node, whatever the store holds — C11 for Table at whole-document level needs no invariant of the node store
  (GM.Props.ConvertX.convertx_conservative_table).

  DOMAIN MONITOR (not Go code). GM.Table works on segments that lie inside the source with non-negative padding and no
  ForceNewline (its header; `Seg` has natural-number fields). `transformPT` answers `pre` for a paragraph with any other
  line — never in the tie; with the run-time checks of convertX the link-reference transformer in front has already
  checked the same thing on the same reader, so the monitor cannot fire there (GM.Proof.ConvertXMon). Core Lean only.
-/
import GM.Model.Blocks.DriverT
import GM.Model.InlinesParsers
import GM.Model.Table
import GM.Model.Tree

namespace GM.TableX
open GM GM.Text GM.Blocks

def tagTable : Nat := 101
def tagHeader : Nat := 102
def tagRow : Nat := 103
def tagCell : Nat := 104

/-- the code of an alignment in GM.Kind.tableCell -/
def alignCode : GM.Table.Align → Int
  | .left => 0 | .right => 1 | .center => 2 | .none => 3

def toSeg (s : Segment) : GM.Table.Seg := { start := s.start.toNat, stop := s.stop.toNat, padding := s.padding.toNat }
def ofSeg (s : GM.Table.Seg) : Segment := { start := s.start, stop := s.stop, padding := s.padding }

/-- the domain of GM.Table: inside the source, padding ≥ 0, no ForceNewline -/
def validB (src : Bytes) (s : Segment) : Bool :=
  decide (0 ≤ s.start) && decide (s.start ≤ s.stop) && decide (s.stop ≤ src.length) && decide (0 ≤ s.padding) && !s.forceNewline

/-- the witness: the index of the first '-' of the source (`len(src)` when there is none) -/
def dashAt (src : Bytes) : Nat := src.idxOf 45

/-- the node's `offset` points at a '-' of the source -/
def hasWitness (src : Bytes) (n : Blocks.Node) : Bool :=
  decide (0 ≤ n.offset) && src[n.offset.toNat]? == some 45

/-- a recorded position as the row node keeps it -/
def escSeg (p : Nat) : Segment := { start := p, stop := p }

/-- one `ast.NewTableCell()` with alignment and line of the model's cell -/
def cellNode (src : Bytes) (c : GM.Table.Cell) : Blocks.Node :=
  { kind := .thematicBreak, htmlType := tagCell, offset := dashAt src, level := alignCode c.align,
    lines := match c.seg with | some s => [ofSeg s] | none => [], linesNil := c.seg.isNone }

/-- `row.AppendChild(row, node)` for every cell of a row: the ids -/
def addCells (src : Bytes) (row : Nat) : List GM.Table.Cell → M Unit
  | [] => pure ()
  | c :: rest => do
    let id ← newNode (cellNode src c)
    appendChild row id
    addCells src row rest

/-- a TableRow (or the TableHeader the header row's cells are moved into) below `table` -/
def addRow (src : Bytes) (table : Nat) (tag : Nat) (cells : List GM.Table.Cell) : M Unit := do
  let id ← newNode { kind := .thematicBreak, htmlType := tag, offset := dashAt src,
                     lines := (cells.flatMap (·.esc)).map escSeg,
                     linesNil := (cells.flatMap (·.esc)).isEmpty }          -- the record invariant `linesNil → lines = []`
  addCells src id cells
  appendChild table id

def addRows (src : Bytes) (table : Nat) : List (List GM.Table.Cell) → M Unit
  | [] => pure ()
  | r :: rest => do
    addRow src table tagRow r
    addRows src table rest

/-- table.go:166-180, once a delimiter row and a matching header are found: the Table node with its header and rows, the
    paragraph's remaining lines `para` (`SetSliced(0, i-1)`, last newline trimmed), `InsertAfter`, `RemoveChild` -/
def buildTable (src : Bytes) (node : Nat) (parent : Option Nat) (para : List GM.Table.Seg) (t : GM.Table.Table) : M Unit := do
  let table ← newNode { kind := .thematicBreak, htmlType := tagTable, offset := dashAt src }
  addRow src table tagHeader t.header
  addRows src table t.rows
  modNode node fun n => { n with lines := para.map ofSeg }
  match parent with
  | none => throw .nil                                                  -- node.Parent().InsertAfter on a nil interface
  | some p =>
    insertBefore p (nextIn node (← getNode p).children) table          -- InsertAfter = InsertBefore(NextSibling)
    if para.isEmpty then removeChild p node

/-- tableParagraphTransformer.Transform (table.go:152-182). `src` = `reader.Source()`: the reader the parser hands to a
    paragraph transformer is the document's (`text.NewReader(source)`), whose source never changes — it is a parameter here
    so that statements about the source need no invariant of the run (GM.Blocks.runT starts from `initSt src`) -/
def transformPT (src : Bytes) : PT := fun node => do
  let n ← getNode node
  let rsrc ← source
  if !(n.lines.all (validB rsrc)) then throw .pre           -- domain monitor (on the reader's own source)
  else
    match (GM.Table.transform src (n.lines.map toSeg)).table with
    | none => pure ()
    | some t => buildTable src node n.parent (GM.Table.transform src (n.lines.map toSeg)).para t

/-- the renderer's kind of a tagged node that carries the witness -/
def kindOf (src : Bytes) (n : Blocks.Node) : Option GM.Kind :=
  if n.kind == .thematicBreak && hasWitness src n then
    if n.htmlType == tagTable then some .table
    else if n.htmlType == tagHeader then some .tableHeader
    else if n.htmlType == tagRow then some .tableRow
    else if n.htmlType == tagCell then some (.tableCell n.level.toNat)
    else none
  else none

/-- a TableHeader / TableRow node: its `lines` are bookkeeping, not lines -/
def isRowNode (src : Bytes) (n : Blocks.Node) : Bool :=
  match kindOf src n with
  | some .tableHeader => true
  | some .tableRow => true
  | _ => false

def isCellNode (src : Bytes) (n : Blocks.Node) : Bool :=
  match kindOf src n with
  | some (.tableCell _) => true
  | _ => false

/-! ### the AST transformer -/

mutual
/-- the parse context list `escapedPipeCellListKey` at the end of the block phase: the positions of all rows -/
def escOfTree (src : Bytes) : Tree → List Int
  | .node n cs => (if isRowNode src n then n.lines.map (·.start) else []) ++ escOfTrees src cs
def escOfTrees (src : Bytes) : List Tree → List Int
  | [] => []
  | t :: rest => escOfTree src t ++ escOfTrees src rest
end

/-- table.go:312-326 for one Text child `c` with segment `[a, b)` of a code span: `done` = the pieces already inserted,
    `cur` = the segment of `n` (the piece still to be cut), `cut` = a position has matched -/
def escCut (a b : Int) : List Int → List GM.Inl.Node → Segment → Bool → List GM.Inl.Node × Segment × Bool
  | [], done, cur, cut => (done, cur, cut)
  | pos :: rest, done, cur, cut =>
    if a ≤ pos && pos < b then
      escCut a b rest (done ++ [GM.Inl.rawTextOf (cur.withStop pos)]) (cur.withStart (pos + 1)) true
    else escCut a b rest done cur cut

mutual
/-- the walk of tableASTTransformer.Transform below a cell: code spans at any depth -/
def escNode (ps : List Int) : GM.Inl.Node → GM.Inl.Node
  | .codeSpan kids => .codeSpan (escSpanKids ps kids)
  | .emphasis lv kids => .emphasis lv (escNodes ps kids)
  | .link im d t kids => .link im d t (escNodes ps kids)
  | n => n
def escNodes (ps : List Int) : List GM.Inl.Node → List GM.Inl.Node
  | [] => []
  | n :: rest => escNode ps n :: escNodes ps rest
/-- the children of a code span: every Text is cut at the recorded positions inside it -/
def escSpanKids (ps : List Int) : List GM.Inl.Node → List GM.Inl.Node
  | [] => []
  | .text seg soft hard raw :: rest =>
    let r := escCut seg.start seg.stop ps [] seg false
    (if r.2.2 then r.1 ++ [GM.Inl.rawTextOf r.2.1] else [.text seg soft hard raw]) ++ escSpanKids ps rest
  | n :: rest => escNode ps n :: escSpanKids ps rest
end

end GM.TableX
