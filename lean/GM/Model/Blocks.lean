/-
  GM.Model.Blocks — executable model of goldmark's block phase (parser.parseBlocks with the ten default
  block parsers, no paragraph transformers). See the files below; `GM.Blocks.run`, `GM.Blocks.dump`.
-/
import GM.Model.Blocks.Basic
import GM.Model.Blocks.Leaf
import GM.Model.Blocks.List
import GM.Model.Blocks.Html
import GM.Model.Blocks.Driver
import GM.Model.Blocks.QuoteSim
import GM.Model.Blocks.Indep
