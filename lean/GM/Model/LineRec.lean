/-
  GM.Model.LineRec — goldmark's LINE-LEVEL RECOGNISERS as pure functions of a line (+ column/offset).
  Core Lean only.  Each definition follows the Go code branch by branch (file:line in the doc comment);
  Go panics (index / slice out of range) are explicit `Except.error "index" | "slice"` results.

  Conventions: a *line* is what `reader.PeekLine()` returns (virtual padding spaces materialised, the `\n`
  included when present); `off`/`currentPos` is `reader.LineOffset()` (the column the line view starts at).
  Go `int` results that can be −1 are `Int`; everything else is `Nat`.
-/
import GM.Model.Util

namespace GM.LineRec
open GM

/-- result of a Go function that may panic -/
abbrev Res := Except String
deriving instance DecidableEq for Except

def byteAt (l : Bytes) (i : Nat) : Res UInt8 :=
  match l[i]? with
  | some c => .ok c
  | none => .error "index"

/-! ## util: tab stops, IndentPosition(Padding), DedentPosition(Padding)  (util/util.go:141-259) -/

/-- `IndentPositionPadding` loop (util.go:170-184): returns the final `(i, w)`. -/
def ippLoop (currentPos width : Nat) : Bytes → Nat → Nat → Nat → Nat × Nat
  | [], i, _, w => (i, w)
  | b :: bs, i, p, w =>
    if p > 0 then ippLoop currentPos width bs (i + 1) (p - 1) (w + 1)
    else if b == 9 && w < width then ippLoop currentPos width bs (i + 1) 0 (w + tabWidth (currentPos + w))
    else if b == 32 && w < width then ippLoop currentPos width bs (i + 1) 0 (w + 1)
    else (i, w)

/-- util.IndentPositionPadding (util.go:162-189); `(-1, -1)` when the line is not indented that far. -/
def indentPositionPadding (bs : Bytes) (currentPos paddingv width : Nat) : Int × Int :=
  if width == 0 then (0, paddingv)
  else
    let r := ippLoop currentPos width bs 0 paddingv 0
    if r.2 ≥ width then ((r.1 : Int) - paddingv, ((r.2 - width : Nat) : Int)) else (-1, -1)

/-- util.IndentPosition (util.go:155-157) -/
def indentPosition (bs : Bytes) (currentPos width : Nat) : Int × Int :=
  indentPositionPadding bs currentPos 0 width

/-- `DedentPosition(Padding)` loop (util.go:199-207, 226-234): `(i, w)` -/
def dedentLoop (currentPos : Nat) : Bytes → Nat → Nat → Nat × Nat
  | [], i, w => (i, w)
  | b :: bs, i, w =>
    if b == 9 then dedentLoop currentPos bs (i + 1) (w + tabWidth (currentPos + w))
    else if b == 32 then dedentLoop currentPos bs (i + 1) (w + 1)
    else (i, w)

/-- util.DedentPosition (deprecated; util.go:194-212) -/
def dedentPosition (bs : Bytes) (currentPos width : Nat) : Nat × Nat :=
  if width == 0 then (0, 0)
  else
    let r := dedentLoop currentPos bs 0 0
    if r.2 ≥ width then (r.1, r.2 - width) else (r.1, 0)

/-- util.DedentPositionPadding (deprecated; util.go:219-239) -/
def dedentPositionPadding (bs : Bytes) (currentPos paddingv width : Nat) : Int × Nat :=
  if width == 0 then (0, paddingv)
  else
    let r := dedentLoop currentPos bs 0 0
    if r.2 ≥ width then ((r.1 : Int) - paddingv, r.2 - width) else ((r.1 : Int) - paddingv, 0)

/-- column reached after the bytes `bs` when starting in column `v` (tab stops every 4): the loop of
    `reader.LineOffset` (text/reader.go:162-175) -/
def colsFrom (v : Nat) : Bytes → Nat
  | [] => v
  | b :: bs => colsFrom (if b == 9 then v + tabWidth v else v + 1) bs

/-! ## a one-line reader (text/reader.go): just enough to say what `Advance` / `AdvanceAndSetPadding` do
    to the position inside the current line -/

/-- Reader state restricted to the current line: `src` is the source from the head of the line on
    (`head = 0`), `start`/`padding` are `pos.Start`/`pos.Padding`. -/
structure LR where
  src : Bytes
  start : Nat
  padding : Nat
  deriving Repr, DecidableEq

/-- bytes up to and including the first `\n` -/
def lineOf : Bytes → Bytes
  | [] => []
  | c :: cs => if c == 10 then [c] else c :: lineOf cs

/-- `PeekLine()` (reader.go:147-156 with Segment.Value): padding as spaces, then the rest of the line -/
def LR.peek (r : LR) : Bytes :=
  if r.start < r.src.length then List.replicate r.padding 32 ++ lineOf (r.src.drop r.start) else []

/-- `LineOffset()` (reader.go:162-175). Go computes `v - Padding` on ints; the model truncates at 0, every
    reachable state has `padding ≤ v` (a padding is part of the tab just passed). -/
def LR.lineOffset (r : LR) : Nat := colsFrom 0 (r.src.take r.start) - r.padding

/-- slow path of `Advance` (reader.go:204-216); `none` = the position moved on to the NEXT line
    (`AdvanceLine`), which is outside this one-line model -/
def advLoop (src : Bytes) : Nat → Nat → Nat → Option (Nat × Nat)
  | 0, start, padding => some (start, padding)
  | n + 1, start, padding =>
    if start < src.length then
      if padding != 0 then advLoop src n start (padding - 1)
      else if src[start]? == some 10 then none
      else advLoop src n (start + 1) 0
    else some (start, padding)

/-- `Advance(n)` after a `PeekLine` (reader.go:197-217) -/
def LR.advance (r : LR) (n : Nat) : Option LR :=
  if n < r.peek.length && r.padding == 0 then some { r with start := r.start + n }
  else (advLoop r.src n r.start r.padding).map fun (s, p) => { r with start := s, padding := p }

/-- `AdvanceAndSetPadding(n, padding)` (reader.go:219-224) -/
def LR.advanceAndSetPadding (r : LR) (n padding : Nat) : Option LR :=
  (r.advance n).map fun r' => if padding > r'.padding then { r' with padding := padding } else r'

/-! ## thematic break (parser/thematic_break.go:21-46) -/

/-- the loop over `line[pos:]`; `mark = 0` is Go's "no marker yet" -/
def tbLoop : Bytes → UInt8 → Nat → Bool
  | [], _, count => count > 2
  | c :: cs, mark, count =>
    if isSpace c then tbLoop cs mark count
    else if mark == 0 then
      (if c == 42 || c == 45 || c == 95 then tbLoop cs c 1 else false)
    else if c != mark then false
    else tbLoop cs mark (count + 1)

/-- parser.isThematicBreak -/
def isThematicBreak (line : Bytes) (offset : Nat) : Bool :=
  let r := indentWidth line offset
  if r.1 > 3 then false else tbLoop (line.drop r.2) 0 0

/-! ## list items (parser/list.go:23-110) -/

inductive ListTyp | notList | bullet | ordered
  deriving DecidableEq, Repr

def ListTyp.code : ListTyp → Nat
  | .notList => 0 | .bullet => 1 | .ordered => 2

/-- Go's `[6]int` match array -/
structure M6 where
  r0 : Int := 0
  r1 : Int := 0
  r2 : Int := 0
  r3 : Int := 0
  r4 : Int := 0
  r5 : Int := 0
  deriving DecidableEq, Repr

/-- list.go:60-80: after the marker, which ends at byte `i`; `k` = number of leading spaces -/
def pliFinish (line : Bytes) (k i : Nat) (typ : ListTyp) : M6 × ListTyp :=
  match line.drop i with
  | [] => ({ r1 := k, r2 := k, r3 := i, r4 := -1, r5 := -1 }, typ)
  | c :: cs =>
    if c != 10 && (indentWidth (c :: cs) 0).1 == 0 then ({ r1 := k, r2 := k, r3 := i }, .notList)
    else
      let r5 := if line.getLast? == some 10 && c != 10 then line.length - 1 else line.length
      ({ r1 := k, r2 := k, r3 := i, r4 := i, r5 := r5 }, typ)

/-- parser.parseListItem (list.go:26-81). The tab test inside the first loop is dead code (the loop
    condition already requires a space). -/
def parseListItem (line : Bytes) : M6 × ListTyp :=
  let k := (line.takeWhile (· == 32)).length
  if k > 3 then ({}, .notList)
  else
    match line.drop k with
    | [] => ({ r1 := k, r2 := k }, .notList)
    | c :: cs =>
      if c == 45 || c == 42 || c == 43 then pliFinish line k (k + 1) .bullet
      else
        let nd := ((c :: cs).takeWhile isNumeric).length
        if nd == 0 || nd > 9 then ({ r1 := k, r2 := k, r3 := k + nd }, .notList)
        else
          match (c :: cs).drop nd with
          | d :: _ =>
            if d == 46 || d == 41 then pliFinish line k (k + nd + 1) .ordered
            else ({ r1 := k, r2 := k, r3 := k + nd }, .notList)
          | [] => ({ r1 := k, r2 := k, r3 := k + nd }, .notList)

/-- parser.matchesListItem (list.go:83-89) -/
def matchesListItem (line : Bytes) (strict : Bool) : M6 × ListTyp :=
  let r := parseListItem line
  if r.2 != .notList && (!strict || r.1.r1 < 4) then r else (r.1, .notList)

/-- parser.calcListOffset (list.go:91-104) as a function of `match[4]` and of `lineOffset`, the column at which
    `source` starts (since 3fb40b2 tab stops are counted from the start of the line: the current column handed
    to IndentWidth is `lineOffset + match[4]`); `source[match[4]:]` panics when `match[4] > len(source)` -/
def calcListOffset (source : Bytes) (m4 : Int) (lineOffset : Nat) : Res Nat :=
  if m4 < 0 then .ok 1
  else
    let k := m4.toNat
    if k > source.length then .error "slice"
    else
      let tail := source.drop k
      if isBlank tail then .ok 1
      else
        let w := (indentWidth tail (lineOffset + k)).1
        .ok (if w > 4 then 1 else w)

/-- parser.lastOffset (list.go:104-110) on the list of the items' offsets -/
def lastOffset (offsets : List Nat) : Nat :=
  match offsets.getLast? with
  | some o => o
  | none => 0

structure ListOpen where
  marker : UInt8
  start : Nat      -- ast.List.Start (0 for bullet lists)
  ordered : Bool
  deriving DecidableEq, Repr

/-- listParser.Open (list.go:128-162) for a fresh context; `afterParagraph` = the last opened block is a
    paragraph child of the parent. `strconv.Atoi` on 1–9 digits is the decimal value. -/
def listOpen (line : Bytes) (afterParagraph : Bool) : Option ListOpen :=
  let (m, typ) := matchesListItem line true
  if typ == .notList then none
  else
    let start : Int :=
      if typ == .ordered then (digitsVal 10 ((line.drop m.r2.toNat).take (m.r3.toNat - 1 - m.r2.toNat)) : Nat) else -1
    if afterParagraph && typ == .ordered && start != 1 then none
    else if afterParagraph && (m.r4 < 0 || isBlank ((line.drop m.r4.toNat).take (m.r5.toNat - m.r4.toNat))) then none
    else
      let marker := line.getD (m.r3.toNat - 1) 0
      some { marker := marker, start := if start > -1 then start.toNat else 0, ordered := marker == 46 || marker == 41 }

structure ItemOpen where
  offset : Int                    -- ast.ListItem.Offset
  child : Option (Int × Int)      -- `AdvanceAndSetPadding(child, padding)` when the item has content on this line
  deriving DecidableEq, Repr

/-- listItemParser.Open (list_item.go:24-52) below a list whose `lastOffset` is `lastOff`; `lineOffset` =
    `reader.LineOffset()` (since 3fb40b2 it is added to the current column of calcListOffset and IndentPosition);
    a panic of calcListOffset is propagated -/
def listItemOpen (line : Bytes) (lastOff : Nat) (lineOffset : Nat) : Res (Option ItemOpen) :=
  let (m, typ) := matchesListItem line false
  if typ == .notList then .ok none
  else if m.r1 - lastOff > 3 then .ok none
  else do
    let itemOffset ← calcListOffset line m.r4 lineOffset
    if m.r4 < 0 || isBlank ((line.drop m.r4.toNat).take (m.r5.toNat - m.r4.toNat)) then
      pure (some { offset := m.r3 + itemOffset, child := none })
    else
      let (pos, padding) := indentPosition (line.drop m.r4.toNat) (lineOffset + m.r4.toNat) itemOffset
      pure (some { offset := m.r3 + itemOffset, child := some (m.r3 + pos, padding) })

/-! ## ATX heading, non-attribute path (parser/atx_heading.go:85-165) -/

/-- `for ; line[i] == '#' && i >= start; i--` (atx_heading.go:150): reading `line[-1]` panics -/
def atxScanBack (line : Bytes) (start : Nat) : Nat → Res Nat
  | 0 =>
    match line[0]? with
    | some c => if c == 35 && 0 ≥ start then .error "index" else .ok 0
    | none => .error "index"
  | i + 1 =>
    match line[i + 1]? with
    | some c => if c == 35 && i + 1 ≥ start then atxScanBack line start i else .ok (i + 1)
    | none => .error "index"

structure AtxOpen where
  level : Nat
  content : Option (Nat × Nat)   -- segment (start, stop) relative to the line, if any
  deriving DecidableEq, Repr

/-- atx_heading.go:142-163: the content segment of a heading whose text starts at `start`, `stop0` = line
    length minus trailing spaces -/
def atxContent (line : Bytes) (start stop0 : Nat) : Res (Option (Nat × Nat)) :=
  if stop0 ≤ start then
    -- stop = start: line[start:start] is empty, no content line
    .ok none
  else
    match atxScanBack line start (stop0 - 1) with
    | .error e => .error e
    | .ok j =>
      match line[j]? with
      | none => .error "index"
      | some cj =>
        let j' := if j != stop0 - 1 && !isSpace cj then stop0 - 1 else j
        let stop := j' + 1
        if stop < start then .error "slice"   -- line[start:stop]
        else if ((line.drop start).take (stop - start)).any (· != 35) then .ok (some (start, stop))
        else .ok none

/-- atxHeadingParser.Open with `Attribute = false`; `pos` = `pc.BlockOffset()` (≥ 0) -/
def atxOpen (line : Bytes) (pos : Nat) : Res (Option AtxOpen) :=
  let n := ((line.drop pos).takeWhile (· == 35)).length
  let i := pos + n
  if n == 0 || n > 6 then .ok none
  else if i == line.length then .ok (some { level := n, content := none })
  else
    let l := trimLeftSpaceLength (line.drop i)
    if l == 0 then .ok none
    else
      let start := if i + l ≥ line.length then line.length - 1 else i + l
      let stop0 := line.length - trimRightSpaceLength line
      (atxContent line start stop0).map fun c => some { level := n, content := c }

/-! ## Setext heading underline (parser/setext_headings.go:15-38) -/

/-- parser.matchesSetextHeadingBar: `some c` on a match; `line[end-1]` panics on the empty line -/
def setextBar (line : Bytes) : Res (Option UInt8) :=
  let space := (line.takeWhile (· == 32)).length
  if space > 3 then .ok none
  else
    let rest := line.drop space
    let level1 := (rest.takeWhile (· == 61)).length
    let c : UInt8 := if level1 == 0 then 45 else 61
    let level2 := if level1 == 0 then (rest.takeWhile (· == 45)).length else 0
    match line.getLast? with
    | none => .error "index"                       -- line[end-1] with end = 0
    | some last =>
      let e := if isSpace last then line.length - trimRightSpaceLength rest else line.length
      if (level1 > 0 && space + level1 == e) || (level2 > 0 && space + level2 == e) then .ok (some c)
      else .ok none

/-! ## fenced code (parser/fcode_block.go:36-96) -/

structure FenceOpen where
  char : UInt8
  indent : Nat
  length : Nat
  info : Option (Nat × Nat)   -- info segment relative to the line
  deriving DecidableEq, Repr

/-- fcode_block.go:50-59, the `return nil` inside the info-string block: the fence is a backtick fence
    and the trimmed rest of the line (`rest = line[i:]`) contains a backtick -/
def fenceInfoBad (c : UInt8) (line : Bytes) (i : Nat) : Bool :=
  let rest := line.drop i
  let left := trimLeftSpaceLength rest
  let right := trimRightSpaceLength rest
  i + 1 < line.length && left + right < rest.length && c == 96 &&
    ((rest.drop left).take (rest.length - right - left)).contains 96

/-- fcode_block.go:48-62: the info segment (relative to the line), if any -/
def fenceInfo (line : Bytes) (i : Nat) : Option (Nat × Nat) :=
  let rest := line.drop i
  let left := trimLeftSpaceLength rest
  let right := trimRightSpaceLength rest
  if i + 1 < line.length && left + right < rest.length && i + left != line.length - right then
    some (i + left, line.length - right)
  else none

/-- fencedCodeBlockParser.Open; `pos` = `pc.BlockOffset()` (≥ 0); `line[pos]` panics beyond the line -/
def fenceOpen (line : Bytes) (pos : Nat) : Res (Option FenceOpen) :=
  match line[pos]? with
  | none => .error "index"
  | some c =>
    if c != 96 && c != 126 then .ok none
    else
      let n := ((line.drop pos).takeWhile (· == c)).length
      let i := pos + n
      if n < 3 then .ok none
      else if fenceInfoBad c line i then .ok none
      else .ok (some { char := c, indent := pos, length := n, info := fenceInfo line i })

/-- the closing-fence test of fencedCodeBlockParser.Continue (fcode_block.go:73-88): `true` = Close.
    `line[len(line)-1]` panics on an empty line (only reachable with an opening length ≤ 0). -/
def fenceClose (line : Bytes) (offset : Nat) (char : UInt8) (length : Nat) : Res Bool :=
  let r := indentWidth line offset
  if r.1 < 4 then
    let n := ((line.drop r.2).takeWhile (· == char)).length
    if n ≥ length && isBlank (line.drop (r.2 + n)) then
      if line.length == 0 then .error "index" else .ok true
    else .ok false
  else .ok false

/-! ## block quote marker (parser/blockquote.go:20-44) -/

/-- blockquoteParser.process on the reader state `r`: `none` = the reader left the line (never, see
    `Proof.LineRec.quoteProcess_stays`), else (result, reader afterwards) -/
def quoteProcess (r : LR) : Option (Bool × LR) :=
  let line := r.peek
  let wp := indentWidth line r.lineOffset
  if wp.1 > 3 then some (false, r)
  else
    match line.drop wp.2 with
    | [] => some (false, r)                       -- pos >= len(line)
    | c :: rest =>
      if c != 62 then some (false, r)             -- line[pos] != '>'
      else
        match rest with
        | [] => (r.advance (wp.2 + 1)).map fun r1 => (true, r1)          -- pos >= len(line) after pos++
        | d :: _ =>
          if d == 10 then (r.advance (wp.2 + 1)).map fun r1 => (true, r1)
          else
            match r.advance (wp.2 + 1) with
            | none => none
            | some r1 =>
              if d == 32 || d == 9 then
                let padding := if d == 9 then tabWidth r1.lineOffset - 1 else 0
                (r1.advanceAndSetPadding 1 padding).map fun r2 => (true, r2)
              else some (true, r1)

/-! ## indented code (parser/code_block.go:27-68): the indentation tests -/

/-- codeBlockParser.Open opens a block on this line -/
def codeOpen (line : Bytes) (offset : Nat) : Bool :=
  let pp := indentPosition line offset 4
  !(pp.1 < 0 || isBlank line)

/-- codeBlockParser.Continue keeps the block open on this line -/
def codeContinue (line : Bytes) (offset : Nat) : Bool :=
  if isBlank line then true else !((indentPosition line offset 4).1 < 0)

/-! ## the per-line gate of parser.openBlocks (parser/parser.go:937-967) with ONE registered block parser -/

/-- `(BlockOffset, BlockIndent)` as published by openBlocks (parser.go:938-945): −1 when the line holds nothing
    but spaces and tabs (since f889f33 the test is on the POSITION of the first non-space byte; it used to
    compare the column width with the byte length). -/
def blockOffset (line : Bytes) (offset : Nat) : Int × Int :=
  let r := indentWidth line offset
  if r.2 ≥ line.length then (-1, -1) else (r.2, r.1)

inductive Which | thematic | atx | fence | code | noParser
  deriving DecidableEq, Repr

def Which.triggers : Which → Option Bytes
  | .thematic => some [45, 42, 95]
  | .atx => some [35]
  | .fence => some [126, 96]
  | .code => none
  | .noParser => some []

def Which.acceptsIndented : Which → Bool
  | .code => true
  | _ => false

/-- openBlocks on a document with no open block: the kind opened by the single parser `which`
    ("" = none) and the heading level (0 if not a heading) -/
def openLine (which : Which) (line : Bytes) (offset : Nat) : Res (String × Nat) :=
  let r := indentWidth line offset
  let bo := (blockOffset line offset).1
  if line.isEmpty || line.head? == some 10 then .ok ("", 0)
  else
    -- the list consulted: blockParsers[line[pos]] or the free parsers
    let consulted : Bool :=
      match which.triggers with
      | none => true                                   -- a free parser is in every list
      | some ts => r.2 < line.length && ts.contains (line.getD r.2 0)
    if !consulted then .ok ("", 0)
    else if r.1 > 3 && !which.acceptsIndented then .ok ("", 0)
    else
      match which with
      | .thematic => .ok (if isThematicBreak line offset then ("ThematicBreak", 0) else ("", 0))
      | .atx =>
        if bo < 0 then .ok ("", 0)
        else do
          match ← atxOpen line bo.toNat with
          | some a => pure ("Heading", a.level)
          | none => pure ("", 0)
      | .fence =>
        if bo < 0 then .ok ("", 0)
        else do
          match ← fenceOpen line bo.toNat with
          | some _ => pure ("FencedCodeBlock", 0)
          | none => pure ("", 0)
      | .code => .ok (if codeOpen line offset then ("CodeBlock", 0) else ("", 0))
      | .noParser => .ok ("", 0)

end GM.LineRec
