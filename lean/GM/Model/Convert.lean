/-
  GM.Model.Convert — `goldmark.New(goldmark.WithRendererOptions(…)).Convert(source, w)` for the default CommonMark
  configuration (markdown.go:66-131: DefaultParser = DefaultBlockParsers + DefaultInlineParsers +
  DefaultParagraphTransformers = [LinkReferenceParagraphTransformer], html renderer with the options Unsafe / XHTML /
  HardWraps), composed from the phase models:

    parser.Parse (parser.go:860-888)
      1. `parseBlocks`                         GM.Blocks.parseBlocksT with the paragraph transformer GM.LinkRef
      2. `walkBlock(root, parseBlock)`         post-order walk over the block tree; every node that is not raw
         (parser.go:1130-1135, 1152-1157)      (`IsRaw`: CodeBlock, FencedCodeBlock, HTMLBlock) gets GM.Inl.parseBlock on its
                                               lines with the reference map the block phase has built; a block without lines
                                               makes `PeekLine` answer nil at once and gets no inline children
      3. no AST transformers in the default configuration
    renderer.Render (renderer.go:152-185)      GM.render / GM.renderPanics on the tree (segments resolved to bytes the
                                               way the node renderers read them: `Segment.Value`, `Lines().At(i).Value`)

  Parameters supplied from the real functions by the harness: the Unicode classes of the non-ASCII runes of the source
  (`Env.uc`, as in component `inlines`). The renderer's CJK soft-line-break decision is only read with
  EastAsianLineBreaks, which the default configuration does not set (`ea = 0`), so it is fixed to false here.

  Outcomes (`Err`). Besides Go run-time panics the model can answer, distinctly:
    * `blocks .loop` / `inlines .loop` — a fuelled loop of a phase ran out (GM.Props.Convert.convert_never_loops: never);
    * `blocks .pre` — a contract monitor of the block driver (retry loop), the progress monitor or the adjacency monitor
      (3) of the link-reference transformer, or — with `guard = true` — the run-time check in front of the transformer
      (GM.LinkRef.guardedTransform) fired;
    * `linesNotWF0` — with `guard = true`: the lines of a block handed to the inline phase are not `WF0` (non-empty,
      inside the source, increasing, padding 0, no ForceNewline): the hypothesis of GM.Props.Inlines.parseBlock_total;
    * `inlines .pre` — a modelling invariant of the inline model is broken.
  `convertCore` is the guarded composition (the theorems are about it); `convertUnguarded` runs the same code without the
  two run-time checks (the tie compares BOTH with the real output and counts how often they differ: whenever the guards
  pass they are the same function by definition).
-/
import GM.Model.Blocks.DriverT
import GM.Model.LinkRef
import GM.Model.InlinesLoop
import GM.Model.Render

namespace GM.Convert
open GM GM.Text

/-- the renderer options of the compared configurations -/
structure ROpts where
  unsafe_ : Bool := false
  xhtml : Bool := false
  hardWraps : Bool := false
  deriving Repr, DecidableEq

/-- the node renderers' state of `goldmark.New(WithRendererOptions(…))`: no extension, default html.Config + the options -/
def ROpts.rcfg (o : ROpts) : RCfg := mkRCfg { unsafe_ := o.unsafe_, xhtml := o.xhtml, hardWraps := o.hardWraps } {}

inductive Err
  | blocks (p : Panic)
  | linesNotWF0
  | inlines (p : Panic)
  | value (p : Panic)                -- `Segment.Value` in a node renderer
  | render (k : PanicKind)
  deriving Repr

/-- the fuel-exhaustion outcomes -/
def Err.isLoop : Err → Bool
  | .blocks .loop => true
  | .inlines .loop => true
  | _ => false

def Err.str : Err → String
  | .blocks p => "blocks:" ++ p.str
  | .linesNotWF0 => "pre:lines-not-WF0"
  | .inlines p => "inlines:" ++ p.str
  | .value p => "render:" ++ p.str
  | .render .index => "render:panic:index"
  | .render .assert => "render:panic:assert"

def liftErr {α} (f : Panic → Err) : Except Panic α → Except Err α
  | .ok a => .ok a
  | .error e => .error (f e)

/-! ### phase 1: the block phase with the link-reference transformer -/

/-- DefaultParagraphTransformers (parser.go:615-619) -/
def paragraphTransformers (guard : Bool) : List GM.Blocks.PT :=
  [if guard then GM.LinkRef.guardedTransform else GM.LinkRef.transform]

def blockPhase (guard : Bool) (src : Bytes) : Except Panic GM.Blocks.St :=
  GM.Blocks.runT (paragraphTransformers guard) src

/-! ### phase 2 + the renderer's view of the tree -/

mutual
/-- an inline node as the renderer reads it (segments resolved) -/
def inlineTree (src : Bytes) : GM.Inl.Node → Except Panic GM.Node
  | .text seg soft hard raw => do
    let v ← seg.value src
    pure (.mk (.text v soft hard raw false) none [])
  | .codeSpan kids => do pure (.mk .codeSpan none (← inlineTrees src kids))
  | .emphasis lv kids => do pure (.mk (.emphasis lv.toNat) none (← inlineTrees src kids))
  | .link im d t kids => do
    let cs ← inlineTrees src kids
    pure (.mk (if im then .image d t else .link d t) none cs)
  | .autoLink email seg => do
    let v ← seg.value src
    pure (.mk (.autoLink email v v) none [])
  | .rawHTML segs => do pure (.mk (.rawHTML (← segValues src segs)) none [])
  | .delim _ _ => pure (.mk .other none [])      -- no renderer function for parser.Delimiter (never left: no_delimiter_survives)
  | .label _ _ _ => pure (.mk .other none [])
def inlineTrees (src : Bytes) : List GM.Inl.Node → Except Panic (List GM.Node)
  | [] => pure []
  | n :: rest => do
    let t ← inlineTree src n
    let ts ← inlineTrees src rest
    pure (t :: ts)
def segValues (src : Bytes) : List Segment → Except Panic (List Bytes)
  | [] => pure []
  | s :: rest => do
    let v ← s.value src
    let vs ← segValues src rest
    pure (v :: vs)
end

/-- `Node.IsRaw()` of the block kinds (ast/block.go:249, 307, 490) -/
def isRawKind : GM.Blocks.Kind → Bool
  | .codeBlock | .fencedCodeBlock | .htmlBlock => true
  | _ => false

/-- `parseBlock(blockReader, node, pc)` (parser.go:1152-1275) for one block: its inline children -/
def inlinePhase (guard : Bool) (env : GM.Inl.Env) (src : Bytes) (n : GM.Blocks.Node) : Except Err (List GM.Inl.Node) :=
  if isRawKind n.kind then .ok []                              -- `if parent.IsRaw() { return }`
  else if n.lines.isEmpty then .ok []                          -- `block.Reset(parent.Lines())`; PeekLine is nil: `break`
  else if guard && !GM.LinkRef.wf0B src n.lines then .error .linesNotWF0
  else liftErr .inlines (GM.Inl.parseBlock env src n.lines)

/-- the renderer's kind of a block node -/
def blockKind (src : Bytes) (n : GM.Blocks.Node) : Except Panic GM.Kind :=
  match n.kind with
  | .document => pure .document
  | .paragraph => pure .paragraph
  | .textBlock => pure .textBlock
  | .thematicBreak => pure .thematicBreak
  | .blockquote => pure .blockquote
  | .heading => pure (.heading n.level.toNat)
  | .codeBlock => do pure (.codeBlock (← segValues src n.lines))
  | .fencedCodeBlock => do
    let info ← match n.info with
      | some s => do pure (some (← s.value src))
      | none => pure none
    pure (.fencedCodeBlock info (← segValues src n.lines))
  | .htmlBlock => do
    let closure ← if n.closure.start ≥ 0 then do pure (some (← n.closure.value src)) else pure none   -- HasClosure
    pure (.htmlBlock (← segValues src n.lines) closure)
  | .list => pure (.list (n.marker == 46 || n.marker == 41) n.start.toNat)                              -- IsOrdered
  | .listItem => pure .listItem

mutual
/-- one block with its block children (already there) followed by its inline children (appended by parseBlock) -/
def docTree (guard : Bool) (env : GM.Inl.Env) (src : Bytes) : GM.Blocks.Tree → Except Err GM.Node
  | .node n cs => do
    let bs ← docTrees guard env src cs
    let kids ← inlinePhase guard env src n
    let is ← liftErr .value (inlineTrees src kids)
    let k ← liftErr .value (blockKind src n)
    pure (.mk k none (bs ++ is))
def docTrees (guard : Bool) (env : GM.Inl.Env) (src : Bytes) : List GM.Blocks.Tree → Except Err (List GM.Node)
  | [] => pure []
  | t :: rest => do
    let x ← docTree guard env src t
    let xs ← docTrees guard env src rest
    pure (x :: xs)
end

/-- parser.Parse: the document as the renderer sees it. `uc` = Unicode classes of the non-ASCII runes -/
def parseDoc (guard : Bool) (uc : List (Nat × (Bool × Bool))) (src : Bytes) : Except Err GM.Node := do
  let st ← liftErr .blocks (blockPhase guard src)
  let env : GM.Inl.Env := { refs := st.pc.refs, uc := uc }
  docTree guard env src (GM.Blocks.treeOf st.nodes st.nodes.length 0)

/-- renderer.Render on the parsed document -/
def renderDoc (o : ROpts) (t : GM.Node) : Except Err Bytes :=
  match renderPanics o.rcfg t with
  | some k => .error (.render k)
  | none => .ok (render o.rcfg t)

def convertWith (guard : Bool) (uc : List (Nat × (Bool × Bool))) (o : ROpts) (src : Bytes) : Except Err Bytes := do
  let t ← parseDoc guard uc src
  renderDoc o t

/-- the model of `goldmark.Markdown.Convert` (default CommonMark configuration + renderer options) -/
def convertCore (uc : List (Nat × (Bool × Bool))) (o : ROpts) (src : Bytes) : Except Err Bytes :=
  convertWith true uc o src

/-- the same composition without the two run-time checks -/
def convertUnguarded (uc : List (Nat × (Bool × Bool))) (o : ROpts) (src : Bytes) : Except Err Bytes :=
  convertWith false uc o src

end GM.Convert
