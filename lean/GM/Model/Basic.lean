/-
  GM.Model.Basic — byte strings, hex protocol helpers. Core Lean only.
-/
namespace GM

abbrev Bytes := List UInt8

/-- Lift a check over `Fin 256` (closed by `decide +kernel`) to all bytes. -/
theorem forall_uint8 (p : UInt8 → Prop) (h : ∀ n : Fin 256, p (UInt8.ofNat n.val)) : ∀ c, p c := by
  intro c
  have := h ⟨c.toNat, c.toNat_lt⟩
  simpa using this

def strBytes (s : String) : Bytes := s.toUTF8.toList

/-! ### hex encoding for the driver protocol (`-` is the empty string) -/

def hexDigit (n : Nat) : Char :=
  if n < 10 then Char.ofNat (48 + n) else Char.ofNat (87 + n)

def hexOfBytes (b : Bytes) : String :=
  if b.isEmpty then "-" else
    String.ofList (b.flatMap fun c => [hexDigit (c.toNat / 16), hexDigit (c.toNat % 16)])

def hexVal? (c : Char) : Option Nat :=
  if '0' ≤ c ∧ c ≤ '9' then some (c.toNat - 48)
  else if 'a' ≤ c ∧ c ≤ 'f' then some (c.toNat - 87)
  else if 'A' ≤ c ∧ c ≤ 'F' then some (c.toNat - 55)
  else none

def bytesOfHexChars : List Char → Option Bytes
  | [] => some []
  | [_] => none
  | a :: b :: rest =>
    match hexVal? a, hexVal? b, bytesOfHexChars rest with
    | some x, some y, some r => some (UInt8.ofNat (x * 16 + y) :: r)
    | _, _, _ => none

def bytesOfHex (s : String) : Option Bytes :=
  if s == "-" then some [] else bytesOfHexChars s.toList

end GM
