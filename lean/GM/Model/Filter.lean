/-
  GM.Model.Filter — util.bytesFilter (util/util.go) over a heap of Go slices with capacity, so that the
  in-place behaviour of `append` (the aliasing window `len < cap`) is part of the model.
-/
import GM.Model.Basic

namespace GM.Filter
open GM

/-- a Go `[][]byte` backing array: capacity and the cells written so far (cells beyond `cells.length`
    up to `cap` are unwritten) -/
structure Arr where
  cap : Nat
  cells : List Bytes
deriving Repr

/-- a Go slice header `[][]byte`: backing array id and length (offset is always 0 here); `none` = nil -/
abbrev Slice := Option (Nat × Nat)

structure Filt where
  chars : List Nat          -- 256 bit masks
  threshold : Nat
  slots : List Slice        -- 64 slots
deriving Repr

structure Heap where
  arrs : List Arr           -- index = array id
  filts : List Filt         -- index = filter id
deriving Repr

def empty : Heap := ⟨[], []⟩

/-- djb2 as in util.bytesHash, on uint64 -/
def bytesHash (b : Bytes) : Nat := b.foldl (fun h c => (h * 33 + c.toNat) % 18446744073709551616) 5381

def newFilt : Filt := ⟨List.replicate 256 0, 3, List.replicate 64 none⟩

def setAt {α} (l : List α) (i : Nat) (v : α) : List α := l.set i v

/-- the elements a slice header sees -/
def sliceElems (h : Heap) : Slice → List Bytes
  | none => []
  | some (a, n) => ((h.arrs.getD a ⟨0, []⟩).cells).take n

/-- Go's growth for appending one element to a full slice of small capacity -/
def growCap (c : Nat) : Nat := if c == 0 then 1 else 2 * c

/-- `append(slot, b)`: in place when `len < cap`, else a fresh array -/
def appendSlice (h : Heap) (s : Slice) (b : Bytes) : Heap × Slice :=
  let (a, n, cap, cells) : Nat × Nat × Nat × List Bytes :=
    match s with
    | none => (0, 0, 0, [])
    | some (a, n) => let ar := h.arrs.getD a ⟨0, []⟩; (a, n, ar.cap, ar.cells)
  if n < cap then
    -- write cell n in place (visible to every header sharing this array)
    let cells' := if n < cells.length then cells.set n b else cells ++ [b]
    ({ h with arrs := h.arrs.set a ⟨cap, cells'⟩ }, some (a, n + 1))
  else
    let id := h.arrs.length
    ({ h with arrs := h.arrs ++ [⟨growCap cap, cells.take n ++ [b]⟩] }, some (id, n + 1))

def orBit (chars : List Nat) (c : UInt8) (i : Nat) : List Nat :=
  chars.set c.toNat ((chars.getD c.toNat 0) ||| (1 <<< i))

/-- bytesFilter.Add -/
def add (h : Heap) (f : Nat) (b : Bytes) : Heap :=
  match h.filts[f]? with
  | none => h
  | some flt =>
    let m := min b.length flt.threshold
    let chars := (List.range m).foldl (fun cs i => orBit cs (b.getD i 0) i) flt.chars
    let k := bytesHash b % 64
    let slot := flt.slots.getD k none
    -- `if slot == nil { slot = [][]byte{} }`: a zero-capacity empty slice; modelled as nil (same append behaviour)
    let (h', slot') := appendSlice h slot b
    { h' with filts := h'.filts.set f { flt with chars := chars, slots := flt.slots.set k slot' } }

/-- NewBytesFilter(elements...) -/
def new (h : Heap) (elems : List Bytes) : Heap :=
  let f := h.filts.length
  elems.foldl (fun h e => add h f e) { h with filts := h.filts ++ [newFilt] }

/-- the slot copy of Extend/ExtendString: `newSlot := make([][]byte, len(v)); copy(newSlot, v); slots[k] = newSlot` -/
def copySlots (h : Heap) (slots : List Slice) : Heap × List Slice :=
  slots.foldl (fun (acc : Heap × List Slice) s =>
    let (h, out) := acc
    let elems := sliceElems h s
    let n := elems.length
    let id := h.arrs.length
    -- make([][]byte, len(v)) of a nil/empty slot is an empty non-nil slice with cap 0
    ({ h with arrs := h.arrs ++ [⟨n, elems⟩] }, out ++ [some (id, n)])) (h, [])

/-- bytesFilter.Extend(bs...) -/
def extend (h : Heap) (f : Nat) (bs : List Bytes) : Heap :=
  match h.filts[f]? with
  | none => h
  | some flt =>
    let (h1, slots) := copySlots h flt.slots
    let g := h1.filts.length
    bs.foldl (fun h e => add h g e) { h1 with filts := h1.filts ++ [{ chars := flt.chars, threshold := flt.threshold, slots := slots }] }

/-- bytesFilter.Contains -/
def contains (h : Heap) (f : Nat) (b : Bytes) : Bool :=
  match h.filts[f]? with
  | none => false
  | some flt =>
    let m := min b.length flt.threshold
    if (List.range m).any (fun i => (flt.chars.getD (b.getD i 0).toNat 0) &&& (1 <<< i) == 0) then false
    else
      let slot := flt.slots.getD (bytesHash b % 64) none
      (sliceElems h slot).any (· == b)

/-- how NewBytesFilterString / ExtendString split their argument: on commas, dropping a trailing empty piece -/
def splitComma (s : Bytes) : List Bytes :=
  let parts := (s.splitOn 44)
  match parts.reverse with
  | [] :: rest => rest.reverse
  | _ => parts

inductive Op
  | new (elems : List Bytes)
  | add (f : Nat) (b : Bytes)
  | extend (f : Nat) (bs : List Bytes)
  | extendString (f : Nat) (s : Bytes)
  | newString (s : Bytes)

def step (h : Heap) : Op → Heap
  | .new es => new h es
  | .add f b => add h f b
  | .extend f bs => extend h f bs
  | .extendString f s => extend h f (splitComma s)
  | .newString s => new h (splitComma s)

def run (ops : List Op) : Heap := ops.foldl step empty

end GM.Filter
