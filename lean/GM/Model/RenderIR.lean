/-
  GM.Model.RenderIR — an option-independent intermediate representation of the rendered output for property
  C10. `ir e a esc t` is the list of `Piece`s of the tree `t` under extension set `e`, table-alignment method
  `a` (pinned, ≠ Default) and writer setting `esc`; it does NOT take XHTML / HardWraps / Unsafe. `emit` turns one
  piece into bytes under the three options; it is the only place where they are read, and it reads ONE global
  value of each (legitimate because of `Props.C10.propagation_complete`).

  `GM.Proof.RenderIR.render_factor` proves `render (mkRCfg o e) t = (ir e a esc t).flatMap (emit …)` against the
  renderer model (GM.Model.Render) that mirrors the scattered option conditionals and the per-renderer
  copies of html.Config. Core Lean only.
-/
import GM.Model.Render

namespace GM

/-- exactly the things the three options act on, plus literal bytes -/
inductive Piece where
  /-- bytes that no option can change -/
  | lit (b : Bytes)
  /-- the end of a void element (`hr`, `br`, `img`, `input`): `>` or, with XHTML, ` />` -/
  | voidEnd
  /-- a soft line break of a rendered Text node: `\n`, preceded by a `<br>` element with HardWraps -/
  | softBreak
  /-- the lines of an HTML block: verbatim with Unsafe, else the placeholder comment and a newline -/
  | rawBlock (lines : List Bytes)
  /-- the closure line of an HTML block: same treatment -/
  | rawBlockClosure (c : Bytes)
  /-- inline raw HTML: verbatim with Unsafe, else the placeholder comment -/
  | rawInline (segs : List Bytes)
  /-- a link / image / autolink destination, already URL-escaped (not yet HTML-escaped):
      written HTML-escaped, except that a destination classified dangerous is written empty without Unsafe -/
  | url (escapedDest : Bytes)
deriving Repr, DecidableEq

def Piece.isVoidEnd : Piece → Bool | .voidEnd => true | _ => false
def Piece.isSoftBreak : Piece → Bool | .softBreak => true | _ => false

/-- the pieces whose bytes may depend on Unsafe: raw HTML and destinations classified dangerous -/
def Piece.unsafeSensitive : Piece → Bool
  | .rawBlock _ | .rawBlockClosure _ | .rawInline _ => true
  | .url d => isDangerousURL d
  | _ => false

/-- `>` / ` />` -/
def voidEndBytes (xhtml : Bool) : Bytes := if xhtml then strBytes " />" else [62]

/-- HardWraps is a rewrite of the piece list: a soft break gets a `<br` … void end in front. Nothing else. -/
def hardWrap (hardWraps : Bool) : Piece → List Piece
  | .softBreak => if hardWraps then [.lit (strBytes "<br"), .voidEnd, .softBreak] else [.softBreak]
  | p => [p]

/-- bytes of one piece once HardWraps has been applied (no dependency on HardWraps any more) -/
def emitBase (xhtml unsafe_ : Bool) : Piece → Bytes
  | .lit b => b
  | .voidEnd => voidEndBytes xhtml
  | .softBreak => [10]
  | .rawBlock lines => if unsafe_ then lines.flatMap secureWrite else omitted ++ [10]
  | .rawBlockClosure c => if unsafe_ then secureWrite c else omitted ++ [10]
  | .rawInline segs => if unsafe_ then segs.flatten else omitted
  | .url d => urlOut unsafe_ d

/-- bytes of one piece under the three options -/
def emit (xhtml hardWraps unsafe_ : Bool) (p : Piece) : Bytes :=
  (hardWrap hardWraps p).flatMap (emitBase xhtml unsafe_)

/-- the configuration with the three options off: used for the kinds no option can touch -/
def refCfg (e : Exts) (a : Nat) (esc : Bool) : RCfg := mkRCfg { tableAlign := some a, writerEsc := some esc } e

/-- pieces written when entering a node. Only the nine option-sensitive kinds are spelled out; every other kind
    contributes the literal bytes its renderer function writes with all three options off. -/
def enterIR (e : Exts) (a : Nat) (esc : Bool) (parentIsHeader : Bool) (next : Option Node) (k : Kind)
    (attrs : Option (List Attr)) (cs : List Node) : List Piece :=
  if !handled e k then [] else
  match k with
  | .htmlBlock lines _ => [.rawBlock lines]
  | .thematicBreak =>
    [.lit (strBytes "<hr" ++ renderAttrs Gen.ThematicAttributeFilter attrs), .voidEnd, .lit [10]]
  | .autoLink email url label =>
    [.lit (strBytes "<a href=\"" ++
        (if email && !mailtoPrefixed url (strBytes "mailto:") then strBytes "mailto:" else [])),
     .url (urlEscape url false),
     .lit ((match attrs with
            | some as => [34] ++ renderAttrList Gen.LinkAttributeFilter as ++ [62]
            | none => [34, 62]) ++
           escapeHTML label ++ strBytes "</a>")]
  | .link dest title =>
    [.lit (strBytes "<a href=\""), .url (urlEscape dest true),
     .lit ([34] ++
        (match title with
         | some t => strBytes " title=\"" ++ write esc t ++ [34]
         | none => []) ++
        renderAttrs Gen.LinkAttributeFilter attrs ++ [62])]
  | .image dest title =>
    [.lit (strBytes "<img src=\""), .url (urlEscape dest true),
     .lit (strBytes "\" alt=\"" ++ altTexts esc cs ++ [34] ++
        (match title with
         | some t => strBytes " title=\"" ++ write esc t ++ [34]
         | none => []) ++
        renderAttrs Gen.ImageAttributeFilter attrs),
     .voidEnd]
  | .rawHTML segs => [.rawInline segs]
  | .text v soft hard raw _ =>
    if raw then [.lit (rawWrite v)]
    else
      .lit (write esc v) ::
        (if hard then [.lit (strBytes "<br"), .voidEnd, .lit [10]]
         else if soft then [.softBreak]
         else [])
  | .taskCheckBox checked =>
    [.lit (if checked then strBytes "<input checked=\"\" disabled=\"\" type=\"checkbox\""
           else strBytes "<input disabled=\"\" type=\"checkbox\""),
     .voidEnd, .lit [32]]
  | .footnoteList =>
    [.lit (strBytes "<div class=\"footnotes\" role=\"doc-endnotes\"" ++ renderAttrs Gen.GlobalAttributeFilter attrs ++
        [62] ++ strBytes "\n<hr"),
     .voidEnd, .lit (strBytes "\n<ol>\n")]
  | k => [.lit (enter (refCfg e a esc) parentIsHeader next k attrs cs)]

/-- pieces written when leaving a node (only the HTML block closure is option-sensitive) -/
def leaveIR (e : Exts) (a : Nat) (esc : Bool) (parentIsHeader : Bool) (next : Option Node) (k : Kind)
    (cs : List Node) : List Piece :=
  if !handled e k then [] else
  match k with
  | .htmlBlock _ closure =>
    (match closure with
     | some c => [.rawBlockClosure c]
     | none => [])
  | k => [.lit (leave (refCfg e a esc) parentIsHeader next k cs)]

mutual
def irNode (e : Exts) (a : Nat) (esc : Bool) (parentIsHeader : Bool) (next : Option Node) : Node → List Piece
  | .mk k attrs cs =>
    enterIR e a esc parentIsHeader next k attrs cs ++
      (if handled e k && skipsChildren k then [] else irNodes e a esc k.isTableHeader cs) ++
      leaveIR e a esc parentIsHeader next k cs
def irNodes (e : Exts) (a : Nat) (esc : Bool) (parentIsHeader : Bool) : List Node → List Piece
  | [] => []
  | c :: rest => irNode e a esc parentIsHeader rest.head? c ++ irNodes e a esc parentIsHeader rest
end

/-- the option-independent piece list of a tree -/
def ir (e : Exts) (a : Nat) (esc : Bool) (t : Node) : List Piece := irNode e a esc false none t

/-! ### a tree-level sufficient condition for "no Unsafe-sensitive piece" -/

/-- the node is not raw HTML and its destination (if it has one), URL-escaped as the renderer does, is not
    classified dangerous -/
def Kind.unsafeFree : Kind → Bool
  | .htmlBlock .. | .rawHTML _ => false
  | .link d _ | .image d _ => !isDangerousURL (urlEscape d true)
  | .autoLink _ u _ => !isDangerousURL (urlEscape u false)
  | _ => true

mutual
def Node.unsafeFree : Node → Bool
  | .mk k _ cs => k.unsafeFree && Node.unsafeFreeList cs
def Node.unsafeFreeList : List Node → Bool
  | [] => true
  | c :: rest => c.unsafeFree && Node.unsafeFreeList rest
end

end GM
