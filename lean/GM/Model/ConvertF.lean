/-
  GM.Model.ConvertF — `goldmark.New(goldmark.WithExtensions(extension.Footnote), goldmark.WithRendererOptions(…)).Convert`
  (`on = true`; optionally `extension.NewFootnote(extension.WithFootnoteIDPrefix(pre))`): the default pipeline of
  GM.Model.Convert with the four things extension.Footnote registers (footnote.go:698-713):

    block parser      footnoteBlockParser, trigger `[`, priority 999: `p.blockParsers['[']` = [footnote] ++ free parsers
                      (parser.go:749-771, 843-850; no default block parser is triggered by `[`)          `triggeredF`, `fnOpen/Continue/Close`
    inline parser     footnoteParser, triggers `!` `[`, priority 101 (in front of the link parser)       `inlineTblF`, `parseFootnote`
    AST transformer   footnoteASTTransformer, priority 999 (the only one)                                `finishDoc` over GM.Footnote.transform
    node renderers    FootnoteHTMLRenderer at default FootnoteConfig (+ IDPrefix) and the global options GM.render (`Exts.foot`)

  BLOCK PHASE. `GM.Blocks.BP` is a closed type, so (as GM.Model.ConvertH does for AutoHeadingID) the driver of
  GM.Model.Blocks.DriverT is copied into `MF = StateT FS M` (`closeLoopF` … `runF`): every call of an `M` function is `up (…)`;
  the ONLY differences are the three dispatch points `bpOpenF` / `bpContinueF` / `bpCloseF`, the parser list (`BPF` = a
  default parser or the footnote parser; `triggeredF`) and the two capability flags. An opened Footnote sits on
  `pc.openedBlocks` as `{ node, bp := .blockquote }`; Continue / Close dispatch on `FS.isFn node` (the parser that opened a
  node is the footnote parser iff the node is an `*ast.Footnote`).

  INLINE PHASE + TRANSFORMER. `walkBlock` (parser.go:1130-1135) visits the blocks in post-order with the FootnoteList WHERE
  THE BLOCK PHASE LEFT IT (in front of the first definition's place); every block gets GM.Inl.parseBlockX over `inlineTblF`
  with the labels of the list's children: `docTreeF` (= GM.Convert.docTree with the tags) builds the tree IN FRONT OF THE
  TRANSFORMER. Its FootnoteLink nodes in document order are the slice under `footnoteLinkListKey`; each becomes one
  `GM.Footnote.Event` (label, under an Image?, hosting definition) — `events`. From there on the numbering is
  GM.Model.Footnote's (`transform`: Index at first reference, the `footnoteLinkIsRendered` filter, RefCount / RefIndex,
  removal of unreferenced definitions, SortChildren, `Count <= 0`): `finishDoc` (a total function on the tree) writes its
  result back — `if list == nil return`; every FootnoteLink gets its three fields (`allLinkFields`, creation order), the
  list leaves its place, and when `listed` it is appended to the Document with the kept definitions in sorted order, each
  with its back-links appended to its last child when that is a Paragraph, else to the Footnote itself (footnote.go:245-264).
  `GM.Props.C16E2E.convertf_events_are_abstraction` states that the (labels, events) GM.Props.C16 speaks about are these.

  Run-time checks (`guard`) and outcomes (`GM.Convert.Err`) are those of GM.Model.Convert. Additional DOMAIN MONITOR (not Go
  code; never answered in the tie — the C16 theorems hold of every document the model converts, that it converts is the tie's
  and C01's business): `value pre` for an `*ast.Footnote` that is not a child of the FootnoteList in the final block tree (it
  would render with `Index` −1), for a child of the list that is no Footnote, for a Footnote / the list below a definition,
  for a list deeper in the tree than the store is large (`tagIn`, `treeOfF`, `blockKindF`), for a FootnoteLink that points at
  no definition of the list (`inlineTreeF`); `blocks pre` when the FootnoteList is in the tree more than once, or — with a list
  in the context — node 0 is not the plain Document any more (`parsePhases`).
  With them the AST shape `shapeOKB` holds of every tree in front of the transformer BY CONSTRUCTION
  (GM.Props.C16E2E.shape_always_ok). Core Lean only.
-/
import GM.Model.Convert
import GM.Model.ExtFootnoteX
import GM.Model.Footnote

namespace GM.ConvertF
open GM GM.Text GM.Blocks GM.Convert

/-! ### the block-phase driver (GM.Model.Blocks.DriverT in `MF`) -/

/-- a block parser of the configuration -/
inductive BPF
  | core (bp : BP)
  | footnote
  deriving DecidableEq, Repr

def BPF.canInterruptParagraph : BPF → Bool
  | .core bp => bp.canInterruptParagraph
  | .footnote => true                                  -- footnote.go:107-109

def BPF.canAcceptIndentedLine : BPF → Bool
  | .core bp => bp.canAcceptIndentedLine
  | .footnote => false                                 -- footnote.go:111-113

/-- the `Parser` field of the parser.Block pushed for a node this parser opened (a Footnote is recognised by its node) -/
def BPF.tag : BPF → BP
  | .core bp => bp
  | .footnote => .blockquote

def bpOpenF : BPF → Nat → MF (Option Nat × PState)
  | .core bp, parent => up (bpOpen bp parent)
  | .footnote, parent => fnOpen parent

/-- `be.Parser.Continue(be.Node, reader, pc)` -/
def bpContinueF (bp : BP) (node : Nat) : MF PState := do
  if (← getF).isFn node then fnContinue node else up (bpContinue bp node)

/-- `b.Parser.Close(b.Node, reader, pc)` -/
def bpCloseF (bp : BP) (node : Nat) : MF Unit := do
  if (← getF).isFn node then fnClose node else up (bpClose bp node)

/-- `p.freeBlockParsers` -/
def freeParsersF : List BPF := freeParsers.map .core

/-- `p.blockParsers[c]` with the footnote block parser registered (`on`) -/
def triggeredF (on : Bool) (c : UInt8) : Option (List BPF) :=
  if on && c == 91 then some (.footnote :: freeParsersF)
  else (triggered c).map (·.map .core)

/-- GM.Blocks.closeLoopT -/
def closeLoopF (pts : List PT) (blocks : List Block) (to : Int) : Nat → MF Unit
  | 0 => pure ()
  | k + 1 => do
    let b ← up (liftE (blockAt blocks (to + k)))
    let n ← up (getNode b.node)
    if n.kind == .paragraph && n.parent.isSome then
      let _ ← up (transformParagraph pts b.node)
    if (← up (getNode b.node)).parent.isSome then bpCloseF b.bp b.node
    closeLoopF pts blocks to k

/-- GM.Blocks.closeBlocksT -/
def closeBlocksF (pts : List PT) (frm to : Int) : MF Unit := do
  let blocks := (← up getPc).opened
  closeLoopF pts blocks to (frm - to + 1).toNat
  let len : Int := blocks.length
  let blocks' ←
    if frm == len - 1 then up (liftE (closeBlocks.slice' blocks 0 to))
    else do
      let a ← up (liftE (closeBlocks.slice' blocks 0 to))
      let b ← up (liftE (closeBlocks.slice' blocks (frm + 1) len))
      pure (a ++ b)
  up (modPc fun pc => { pc with opened := blocks' })

/-- GM.Blocks.requireParaT -/
def requireParaF (pts : List PT) (parent : Nat) (last : Option Nat) (lastBlock : Option Block) : MF Bool := do
  if last == (← up (getNode parent)).children.getLast? then
    match lastBlock with
    | none => throw .nil
    | some lb =>
      bpCloseF lb.bp lb.node
      let blocks := (← up getPc).opened
      if blocks.length == 0 then throw .slice
      up (modPc fun pc => { pc with opened := blocks.dropLast })
      if (← up (getNode lb.node)).kind != .paragraph then throw .assert
      up (transformParagraph pts lb.node)
  else pure false

/-- GM.Blocks.tryParsersT -/
def tryParsersF (pts : List PT) (parent : Nat) (blankLine : Bool) (continuable : Bool) (w : Int) :
    List BPF → OpenResult → Option Block → MF (TryOutcomeT × OpenResult × Option Block)
  | [], result, lastBlock => pure (.done, result, lastBlock)
  | bp :: bps, result, lastBlock => do
    if continuable && result == .noBlocksOpened && !bp.canInterruptParagraph then
      return ← tryParsersF pts parent blankLine continuable w bps result lastBlock
    if w > 3 && !bp.canAcceptIndentedLine then
      return ← tryParsersF pts parent blankLine continuable w bps result lastBlock
    let lastBlock ← up lastOpenedBlock
    let last := lastBlock.map (·.node)
    let (node, state) ← bpOpenF bp parent
    match node with
    | none => tryParsersF pts parent blankLine continuable w bps result lastBlock
    | some node =>
      let transformed ← if state.requirePara then requireParaF pts parent last lastBlock else pure false
      if transformed then return (.retryTransformed, result, lastBlock)
      up (modNode node fun n => { n with blankPrev := blankLine })
      match last with
      | some l =>
        if (← up (getNode l)).parent.isNone then
          let lastPos : Int := ((← up getPc).opened.length : Int) - 1
          closeBlocksF pts lastPos lastPos
      | none => pure ()
      up (appendChild parent node)
      up (modPc fun pc => { pc with opened := pc.opened ++ [{ node := node, bp := bp.tag }] })
      if state.hasChildren then return (.retry node, .newBlocksOpened, lastBlock)
      return (.done, .newBlocksOpened, lastBlock)

/-- GM.Blocks.retryStepT (with its two contract monitors) -/
def retryStepF (pts : List PT) (blankLine tdone continuable : Bool) (parent : Nat) (w : Int)
    (bps : List BPF) (result : OpenResult) (lastBlock : Option Block)
    (again : Bool → Bool → Nat → OpenResult → Option Block → MF OpenResult) : MF OpenResult := do
  let before := retryMeasure (← up get)
  let (outcome, result, lastBlock) ← tryParsersF pts parent blankLine continuable w bps result lastBlock
  match outcome with
  | .retry parent' =>
    let after := retryMeasure (← up get)
    if !(after < before) then throw .pre
    again tdone continuable parent' result lastBlock
  | .retryTransformed =>
    let after := retryMeasure (← up get)
    if tdone || !(after ≤ before) then throw .pre
    again true false parent result lastBlock
  | .done => up (toContinuable continuable result lastBlock)

/-- GM.Blocks.openBlocksLoopT -/
def openBlocksLoopF (on : Bool) (pts : List PT) (blankLine : Bool) :
    Nat → Bool → Bool → Nat → OpenResult → Option Block → MF OpenResult
  | 0, _, _, _, _, _ => throw .loop
  | fuel + 1, tdone, continuable, parent, result, lastBlock => do
    let (line, _) ← up peekLine
    let lineB := line.getD []
    let len : Int := lineB.length
    let (w, pos) := indentWidthI lineB (← up lineOffset)
    up (modPc fun pc =>
      if pos ≥ len then { pc with blockOffset := -1, blockIndent := -1 }
      else { pc with blockOffset := pos, blockIndent := w })
    if line.isNone then return ← up (toContinuable continuable result lastBlock)
    if (← up (liftE (idx lineB 0))) == 10 then return ← up (toContinuable continuable result lastBlock)
    let bps ←
      if pos < len then do
        let c ← up (liftE (idx lineB pos))
        pure ((triggeredF on c).getD freeParsersF)
      else pure freeParsersF
    retryStepF pts blankLine tdone continuable parent w bps result lastBlock
      (openBlocksLoopF on pts blankLine fuel)

/-- GM.Blocks.openBlocksT -/
def openBlocksF (on : Bool) (pts : List PT) (parent : Nat) (blankLine : Bool) : MF OpenResult := do
  let lastBlock ← up lastOpenedBlock
  let continuable ← match lastBlock with
    | some lb => do pure ((← up (getNode lb.node)).kind == .paragraph)
    | none => pure false
  openBlocksLoopF on pts blankLine (retryFuel (← up source)) false continuable parent .noBlocksOpened lastBlock

/-- GM.Blocks.lineLoopT -/
def lineLoopF (on : Bool) (pts : List PT) (parent : Nat) (openedBlocks : List Block) (lastIndex : Int) :
    List Block → Int → List LineStat → MF (LineOutcome × List LineStat)
  | [], _, blankLines => pure (.next, blankLines)
  | be :: rest, i, blankLines => do
    let (line, _) ← up peekLine
    match line with
    | none =>
      closeBlocksF pts lastIndex 0
      up advanceLine
      return (.eof, blankLines)
    | some line =>
      let (lineNum, _) ← up position
      let blankLines := blankLines ++ [{ lineNum := lineNum, level := i, isBlank := isBlank line }]
      let beNode ← up (getNode be.node)
      let mut fallThrough := true
      if beNode.kind != .paragraph then
        let state ← bpContinueF be.bp be.node
        if state.cont then
          if state.hasChildren && i == lastIndex then
            let blank := isBlankLine (lineNum - 1) i blankLines
            let _ ← openBlocksF on pts be.node blank
            return (.next, blankLines)
          fallThrough := false
      if !fallThrough then
        lineLoopF on pts parent openedBlocks lastIndex rest (i + 1) blankLines
      else
        let blank := isBlankLine (lineNum - 1) i blankLines
        let thisParent ←
          if i != 0 then do
            let b ← up (liftE (blockAt openedBlocks (i - 1)))
            pure b.node
          else pure parent
        let lastNode ← up (liftE (blockAt openedBlocks lastIndex))
        let result ← openBlocksF on pts thisParent blank
        if result != .paragraphContinuation then
          let now := slotAfter openedBlocks (← up getPc).opened lastIndex.toNat
          let lastIndex := if now.map (·.node) != some lastNode.node then lastIndex - 1 else lastIndex
          closeBlocksF pts lastIndex i
        return (.next, blankLines)

/-- GM.Blocks.linesLoopT -/
def linesLoopF (on : Bool) (pts : List PT) (parent : Nat) : Nat → List LineStat → MF (Bool × List LineStat)
  | 0, _ => throw .loop
  | fuel + 1, blankLines => do
    let openedBlocks := (← up getPc).opened
    let l := openedBlocks.length
    if l == 0 then return (false, blankLines)
    let (outcome, blankLines) ← lineLoopF on pts parent openedBlocks ((l : Int) - 1) openedBlocks 0 blankLines
    match outcome with
    | .eof => return (true, blankLines)
    | .next =>
      up advanceLine
      linesLoopF on pts parent fuel blankLines

/-- GM.Blocks.blocksLoopT -/
def blocksLoopF (on : Bool) (pts : List PT) (parent : Nat) : Nat → List LineStat → MF Unit
  | 0, _ => throw .loop
  | fuel + 1, blankLines => do
    let (_, lines, ok) ← up skipBlankLinesR
    if !ok then return
    let (lineNum, _) ← up position
    let nOpened := (← up getPc).opened.length
    let blankLines := if lines != 0 then blankStats lineNum lines nOpened else blankLines
    let blank := isBlankLine (lineNum - 1) 0 blankLines
    if (← openBlocksF on pts parent blank) != .newBlocksOpened then return
    up advanceLine
    let (ret, blankLines) ← linesLoopF on pts parent fuel blankLines
    if ret then return
    blocksLoopF on pts parent fuel blankLines

/-- GM.Blocks.parseBlocksT -/
def parseBlocksF (on : Bool) (pts : List PT) (parent : Nat) : MF Unit := do
  up (modPc fun pc => { pc with opened := [] })
  blocksLoopF on pts parent (linesFuel (← up source)) []

/-- the block phase of `parser.Parse` with the extension: the final two-layer state (`NewContext()`: no list yet) -/
def runF (on : Bool) (pts : List PT) (src : Bytes) : Except Panic (FS × St) :=
  (parseBlocksF on pts 0 {} (initSt src)).map fun r => (r.1.2, r.2)

def blockPhaseF (on guard : Bool) (src : Bytes) : Except Panic (FS × St) :=
  runF on (paragraphTransformers guard) src

/-! ### the block tree with the footnote nodes marked -/

inductive FTag
  | plain
  /-- the FootnoteList -/
  | list
  /-- an `ast.Footnote`, the `pos`-th child of the list -/
  | footnote (pos : Nat)
  /-- an `ast.Footnote` that is not a child of the list (domain monitor) -/
  | stray
  /-- a child of the FootnoteList that is no `*ast.Footnote`: the transformer's `footnote.(*ast.Footnote)` (footnote.go:251)
      panics on it (a Go panic, not a monitor) -/
  | alien
  deriving DecidableEq, Repr

/-- the children of the FootnoteList at the end of the block phase: the definitions in `Close` order -/
def listKids (f : FS) (st : St) : List Nat :=
  match f.list with
  | some l => (st.nodes.getD l default).children
  | none => []

/-- the `Ref`s of the list's children: the `labels` of GM.Model.Footnote -/
def labelsOf (f : FS) (st : St) : List Bytes := (listKids f st).map f.refOf

/-- where the walk over the store is: outside the list, at the `i`-th child of the list, below a definition -/
inductive Mode
  | body
  | noteRoot (i : Nat)
  | note
  deriving DecidableEq, Repr

/-- the tag of the node `id` met in mode `m`. DOMAIN MONITORS (`stray`; docTreeF answers `value pre`): an `*ast.Footnote`
    outside the list, a Footnote / the FootnoteList below a definition. A child of the list that is no Footnote is `alien`:
    the type assertion of the AST transformer panics (docTreeF answers `value assert`). -/
def tagIn (f : FS) (m : Mode) (id : Nat) : FTag :=
  match m with
  | .body => if f.list == some id then .list else if f.isFn id then .stray else .plain
  | .noteRoot i => if f.isFn id then .footnote i else .alien
  | .note => if f.list == some id || f.isFn id then .stray else .plain

def FTag.isList : FTag → Bool
  | .list => true
  | _ => false

inductive FTree
  | node (tag : FTag) (n : Blocks.Node) (children : List FTree)

/-- `g i c` for the children `c` with their positions `i`, counted from `k` -/
def mapIdxFrom (g : Nat → Nat → FTree) : Nat → List Nat → List FTree
  | _, [] => []
  | k, c :: rest => g k c :: mapIdxFrom g (k + 1) rest

/-- GM.Blocks.treeOf with the tags: the children of the FootnoteList are the definitions `0, 1, …` in child order, what
    lies below a definition is walked in mode `note`. Out of fuel (the tree is deeper than the store is large) at a
    FootnoteList that has children: `stray` (monitor). -/
def treeOfF (f : FS) (nodes : List Blocks.Node) : Nat → Mode → Nat → FTree
  | 0, m, id =>
    let n := nodes.getD id default
    .node (if (tagIn f m id).isList && !n.children.isEmpty then .stray else tagIn f m id) n []
  | fuel + 1, m, id =>
    let n := nodes.getD id default
    if (tagIn f m id).isList then .node .list n (mapIdxFrom (fun i c => treeOfF f nodes fuel (.noteRoot i) c) 0 n.children)
    else .node (tagIn f m id) n (n.children.map (treeOfF f nodes fuel (match m with | .body => .body | _ => .note)))

mutual
/-- the number of FootnoteList nodes of the tree -/
def FTree.listCount : FTree → Nat
  | .node tag _ cs => (if tag.isList then 1 else 0) + FTree.listCountL cs
def FTree.listCountL : List FTree → Nat
  | [] => 0
  | t :: rest => t.listCount + FTree.listCountL rest
end

/-! ### phase 2 + the tree in front of the AST transformer (GM.Convert.docTree with the tags) -/

/-- `parseBlock(blockReader, node, pc)` for one block (as GM.Convert.inlinePhase) over the trigger table with the footnote
    parser; `refs` = the labels of the list's children (`none`: no list in the context) -/
def inlinePhaseF (on guard : Bool) (refs : Option (List Bytes)) (env : GM.Inl.Env) (src : Bytes) (n : Blocks.Node) :
    Except Err (List GM.Inl.Node) :=
  if isRawKind n.kind then .ok []
  else if n.lines.isEmpty then .ok []
  else if guard && !GM.LinkRef.wf0B src n.lines then .error .linesNotWF0
  else liftErr .inlines (GM.Inl.parseBlockX env (inlineTblF on refs) src n.lines)

mutual
/-- GM.Convert.inlineTree; with the extension on a FootnoteLink is decoded. IN FRONT OF THE TRANSFORMER its first field
    holds the position `k` of the definition it resolved to (not yet the `Index`); `RefCount = RefIndex = 0` as
    `ast.NewFootnoteLink` leaves them -/
def inlineTreeF (on : Bool) (n : Nat) (src : Bytes) : GM.Inl.Node → Except Panic GM.Node
  | .text seg soft hard raw => do
    let v ← seg.value src
    pure (.mk (.text v soft hard raw false) none [])
  | .codeSpan kids => do pure (.mk .codeSpan none (← inlineTreesF on n src kids))
  | .emphasis lv kids =>
    match (if on then fnLinkPos? lv else none) with     -- decoded only when the parser that builds it is registered
    | some k => if k < n then pure (.mk (.footnoteLink k 0 0) none []) else throw .pre   -- monitor: no such definition
    | none => do pure (.mk (.emphasis lv.toNat) none (← inlineTreesF on n src kids))
  | .link im d t kids => do
    let cs ← inlineTreesF on n src kids
    pure (.mk (if im then .image d t else .link d t) none cs)
  | .autoLink email seg => do
    let v ← seg.value src
    pure (.mk (.autoLink email v v) none [])
  | .rawHTML segs => do pure (.mk (.rawHTML (← segValues src segs)) none [])
  | .delim _ _ => pure (.mk .other none [])
  | .label _ _ _ => pure (.mk .other none [])
def inlineTreesF (on : Bool) (n : Nat) (src : Bytes) : List GM.Inl.Node → Except Panic (List GM.Node)
  | [] => pure []
  | x :: rest => do
    let t ← inlineTreeF on n src x
    let ts ← inlineTreesF on n src rest
    pure (t :: ts)
end

/-- the renderer's kind of a block node. IN FRONT OF THE TRANSFORMER a Footnote carries its position in the list (not yet
    the `Index`). DOMAIN MONITOR: a Footnote outside the list answers `pre`. -/
def blockKindF (tag : FTag) (src : Bytes) (n : Blocks.Node) : Except Panic GM.Kind :=
  match tag with
  | .plain => blockKind src n
  | .list => if n.lines.isEmpty then pure .footnoteList else throw .pre        -- monitor: a FootnoteList has no lines
  | .footnote k => if n.lines.isEmpty then pure (.footnote k) else throw .pre  -- monitor: a Footnote has no lines
  | .stray => throw .pre
  | .alien => throw .assert                                                   -- `footnote.(*ast.Footnote)` (footnote.go:251)

mutual
/-- GM.Convert.docTree over the tagged tree: walkBlock (post-order, the FootnoteList where the block phase left it) with
    parseBlock on every block, then the node as the renderer reads it -/
def docTreeF (on guard : Bool) (refs : Option (List Bytes)) (env : GM.Inl.Env) (src : Bytes) : FTree → Except Err GM.Node
  | .node tag n cs => do
    let bs ← docTreesF on guard refs env src cs
    let kids ← inlinePhaseF on guard refs env src n
    let is ← liftErr .value (inlineTreesF on (refs.getD []).length src kids)
    let k ← liftErr .value (blockKindF tag src n)
    pure (.mk k none (bs ++ is))
def docTreesF (on guard : Bool) (refs : Option (List Bytes)) (env : GM.Inl.Env) (src : Bytes) :
    List FTree → Except Err (List GM.Node)
  | [] => pure []
  | t :: rest => do
    let x ← docTreeF on guard refs env src t
    let xs ← docTreesF on guard refs env src rest
    pure (x :: xs)
end

/-! ### the reference events (what lands under `footnoteLinkListKey`, in creation order) -/

/-- one FootnoteLink: the definition position its label resolved to, whether it has an Image ancestor, the hosting definition -/
structure RawEv where
  k : Nat
  dropped : Bool
  host : Option Nat
  deriving DecidableEq, Repr

mutual
/-- the FootnoteLinks of the tree in front of the transformer in creation order = document order (a block's block
    children come first, then its inline children — the order walkBlock parses them in); `under`: below an Image,
    `host`: the enclosing Footnote -/
def evNode (under : Bool) (host : Option Nat) : GM.Node → List RawEv
  | .mk (.footnoteLink k _ _) _ _ => [{ k := k, dropped := under, host := host }]
  | .mk (.image _ _) _ cs => evNodes true host cs
  | .mk (.footnote k) _ cs => evNodes under (some k) cs
  | .mk _ _ cs => evNodes under host cs
def evNodes (under : Bool) (host : Option Nat) : List GM.Node → List RawEv
  | [] => []
  | n :: rest => evNode under host n ++ evNodes under host rest
end

/-- the event of GM.Model.Footnote: the label is the `Ref` of the definition the reference resolved to (= the bytes between
    `[^` and `]`: `resolve` compares them for equality) -/
def RawEv.event (labels : List Bytes) (e : RawEv) : GM.Footnote.Event :=
  { label := labels.getD e.k [], dropped := e.dropped, host := e.host }

def events (labels : List Bytes) (t : GM.Node) : List GM.Footnote.Event := (evNode false none t).map (RawEv.event labels)

/-! ### the AST transformer (footnote.go:204-278), a total function on the tree -/

/-- the three fields of every FootnoteLink after Transform, in creation order -/
def linkFields (tr : GM.Footnote.Transformed) : List GM.Footnote.Link :=
  (GM.Footnote.allLinkFields tr.defs tr.created tr.links).map (·.2)

mutual
/-- write `Index` / `RefCount` / `RefIndex` into the FootnoteLinks in creation order (the `Index` was assigned by the inline
    parser, footnote.go:165-169; `fields` carries all three) -/
def fill : List GM.Footnote.Link → GM.Node → GM.Node × List GM.Footnote.Link
  | fs, .mk (.footnoteLink k rc ri) a cs =>
    match fs with
    | l :: rest => (.mk (.footnoteLink l.index.toNat l.refCount l.refIndex) a cs, rest)
    | [] => (.mk (.footnoteLink k rc ri) a cs, [])
  | fs, .mk k a cs =>
    let r := fillL fs cs
    (.mk k a r.1, r.2)
def fillL : List GM.Footnote.Link → List GM.Node → List GM.Node × List GM.Footnote.Link
  | fs, [] => ([], fs)
  | fs, n :: rest =>
    let r := fill fs n
    let rs := fillL r.2 rest
    (r.1 :: rs.1, rs.2)
end

mutual
/-- the tree without its FootnoteList (`list.Parent().RemoveChild` / the move by `node.AppendChild(node, list)`) -/
def dropLists : GM.Node → GM.Node
  | .mk k a cs => .mk k a (dropListsL cs)
def dropListsL : List GM.Node → List GM.Node
  | [] => []
  | .mk .footnoteList _ _ :: rest => dropListsL rest
  | n :: rest => dropLists n :: dropListsL rest
end

mutual
/-- the child lists of the FootnoteList nodes (outside any FootnoteList), in document order -/
def listsOf : GM.Node → List (List GM.Node)
  | .mk .footnoteList _ cs => [cs]
  | .mk _ _ cs => listsOfL cs
def listsOfL : List GM.Node → List (List GM.Node)
  | [] => []
  | n :: rest => listsOf n ++ listsOfL rest
end

def backNode (l : GM.Footnote.Link) : GM.Node := .mk (.footnoteBacklink l.index.toNat l.refCount l.refIndex) none []

/-- footnote.go:246-262: `container` = the Footnote's last child when that is a Paragraph, else the Footnote; the
    back-links are appended to it -/
def appendBacks (backs : List GM.Node) (cs : List GM.Node) : List GM.Node :=
  match cs.getLast? with
  | some (.mk .paragraph a pcs) => cs.dropLast ++ [.mk .paragraph a (pcs ++ backs)]
  | _ => cs ++ backs

/-- one kept definition as the renderer reads it: `notes` = the list's children in block-phase order -/
def noteNode (notes : List GM.Node) (fn : GM.Footnote.FNode) : GM.Node :=
  match notes[fn.src]? with
  | some (.mk _ a cs) => .mk (.footnote fn.index.toNat) a (appendBacks (fn.backs.map backNode) cs)
  | none => .mk (.footnote fn.index.toNat) none (fn.backs.map backNode)

/-- the FootnoteList after Transform -/
def listNode (tr : GM.Footnote.Transformed) (notes : List GM.Node) : GM.Node :=
  .mk .footnoteList none (tr.nodes.map (noteNode notes))

/-- (*footnoteASTTransformer).Transform on the tree in front of it. `hasList` = the context holds a FootnoteList
    (footnote.go:217-219: `if list == nil { return }`); `tr` = GM.Footnote.transform of the abstraction of that tree. -/
def finishDoc (hasList : Bool) (tr : GM.Footnote.Transformed) (t : GM.Node) : GM.Node :=
  if !hasList then t
  else
    let t' := (fill (linkFields tr) t).1
    match dropLists t' with
    | .mk k a cs => .mk k a (cs ++ (if tr.listed then [listNode tr ((listsOf t').head?.getD [])] else []))

/-! ### the composition -/

/-- DOMAIN MONITORS on the block phase's result (not Go code; never true in the tie): the FootnoteList is in the tree more
    than once; or, with a FootnoteList in the context, node 0 is not the plain Document any more -/
def monitorFires (f : FS) (st : St) (ft : FTree) : Bool :=
  decide (ft.listCount > 1) ||
    (f.list.isSome && !(tagIn f .body 0 == .plain && (st.nodes.getD 0 default).kind == .document))

/-- the state of the block phase and the tree in front of the AST transformer -/
def parsePhases (on guard : Bool) (uc : List (Nat × (Bool × Bool))) (src : Bytes) : Except Err (FS × St × GM.Node) := do
  let (f, st) ← liftErr .blocks (blockPhaseF on guard src)
  let env : GM.Inl.Env := { refs := st.pc.refs, uc := uc }
  let ft := treeOfF f st.nodes st.nodes.length .body 0
  if monitorFires f st ft then throw (.blocks .pre)
  let refs := if f.list.isSome then some (labelsOf f st) else none
  let t ← docTreeF on guard refs env src ft
  pure (f, st, t)

/-- the abstraction of one parse GM.Props.C16 speaks about: the definition labels and the reference events -/
def absOf (on guard : Bool) (uc : List (Nat × (Bool × Bool))) (src : Bytes) :
    Except Err (List Bytes × List GM.Footnote.Event) := do
  let (f, st, t) ← parsePhases on guard uc src
  pure (labelsOf f st, events (labelsOf f st) t)

/-- parser.Parse with the extension: the document as the renderer sees it -/
def parseDocF (on guard : Bool) (uc : List (Nat × (Bool × Bool))) (src : Bytes) : Except Err GM.Node := do
  let (f, st, t) ← parsePhases on guard uc src
  let labels := labelsOf f st
  pure (finishDoc f.list.isSome (GM.Footnote.transform labels (events labels t)) t)

/-- the node renderers' state: the core's and FootnoteHTMLRenderer's, default-constructed (+ IDPrefix) + the global options -/
def rcfgF (on : Bool) (pre : Option Bytes) (o : ROpts) : RCfg :=
  { mkRCfg { unsafe_ := o.unsafe_, xhtml := o.xhtml, hardWraps := o.hardWraps } { foot := on } with
    footc := if on then { idPrefix := pre } else {} }

def renderDocF (on : Bool) (pre : Option Bytes) (o : ROpts) (t : GM.Node) : Except Err Bytes :=
  match renderPanics (rcfgF on pre o) t with
  | some k => .error (.render k)
  | none => .ok (render (rcfgF on pre o) t)

def convertFWith (on guard : Bool) (pre : Option Bytes) (uc : List (Nat × (Bool × Bool))) (o : ROpts) (src : Bytes) :
    Except Err Bytes := do
  let t ← parseDocF on guard uc src
  renderDocF on pre o t

/-- the model of `goldmark.New(goldmark.WithExtensions(extension.Footnote), goldmark.WithRendererOptions(o)).Convert`
    (`on = true`, `pre = none`; `pre = some p`: `extension.NewFootnote(extension.WithFootnoteIDPrefix(p))`);
    `on = false` is GM.Convert.convertCore. Guarded like `convertCore`. -/
def convertF (on : Bool) (pre : Option Bytes) (uc : List (Nat × (Bool × Bool))) (o : ROpts) (src : Bytes) : Except Err Bytes :=
  convertFWith on true pre uc o src

def convertFUnguarded (on : Bool) (pre : Option Bytes) (uc : List (Nat × (Bool × Bool))) (o : ROpts) (src : Bytes) :
    Except Err Bytes :=
  convertFWith on false pre uc o src

/-! ### well-formedness of the tree in front of the transformer (hypothesis of the end-to-end theorems; decidable) -/

def isDocKind : GM.Kind → Bool
  | .document => true
  | _ => false

def isFootKind : GM.Kind → Bool
  | .footnote _ => true
  | .footnoteList => true
  | _ => false

mutual
/-- no Footnote / FootnoteList below -/
def plainB : GM.Node → Bool
  | .mk k _ cs => !isFootKind k && plainBL cs
def plainBL : List GM.Node → Bool
  | [] => true
  | t :: rest => plainB t && plainBL rest
end

/-- the kind is `Footnote` with position `k` -/
def isNoteKind (k : Nat) : GM.Kind → Bool
  | .footnote j => j == k
  | _ => false

/-- the children of the list: the k-th is the Footnote `k`, no Footnote / FootnoteList below it -/
def notesOKB : Nat → List GM.Node → Bool
  | _, [] => true
  | k, .mk kind _ cs :: rest => isNoteKind k kind && plainBL cs && notesOKB (k + 1) rest

mutual
/-- outside the list no Footnote; a FootnoteLink is a leaf; no Footnote / FootnoteList below an Image -/
def bodyOKB : GM.Node → Bool
  | .mk .footnoteList _ _ => true
  | .mk (.footnote _) _ _ => false
  | .mk (.footnoteLink _ _ _) _ cs => cs.isEmpty
  | .mk (.image _ _) _ cs => plainBL cs
  | .mk _ _ cs => bodyOKBL cs
def bodyOKBL : List GM.Node → Bool
  | [] => true
  | t :: rest => bodyOKB t && bodyOKBL rest
end

mutual
/-- no FootnoteBacklink in the tree (the transformer is the only code that creates one) -/
def noBacksB : GM.Node → Bool
  | .mk (.footnoteBacklink _ _ _) _ _ => false
  | .mk _ _ cs => noBacksBL cs
def noBacksBL : List GM.Node → Bool
  | [] => true
  | t :: rest => noBacksB t && noBacksBL rest
end

/-- WELL-FORMEDNESS HYPOTHESIS of the end-to-end theorems (evaluated by the tie on every document: flag `c`): the tree in front
    of the transformer holds at most one FootnoteList; its children are exactly the definitions `0 … labels.length − 1` in
    order; no Footnote / FootnoteList anywhere else; the root is the Document (without a list: no Footnote / FootnoteList); no FootnoteBacklink yet; every FootnoteLink
    points at a definition of the list; without a FootnoteList in the context there is neither a list node nor a
    FootnoteLink. Facts about the block driver, the AST and the inline loop (every opened Footnote is closed, i.e. moved into
    the one list; child lists are duplicate-free; the default parsers build no FootnoteLink), not about the numbering. -/
def shapeOKB (hasList : Bool) (labels : List Bytes) (t : GM.Node) : Bool :=
  bodyOKB t && (if hasList then isDocKind t.kind else !isFootKind t.kind) && noBacksB t &&
    (match listsOf t with
     | [] => true
     | [cs] => notesOKB 0 cs && cs.length == labels.length
     | _ => false) &&
    (evNode false none t).all (fun e => decide (e.k < labels.length)) &&
    (hasList || ((evNode false none t).isEmpty && (listsOf t).isEmpty))

/-! ### what C16 reads off the tree the renderer receives -/

mutual
/-- the FootnoteLink nodes the renderer reaches, in output order: `renderImage` (renderer/html/html.go:608-634, 708-725)
    writes only the text of an Image's descendants -/
def linksOf : GM.Node → List GM.Footnote.Link
  | .mk (.footnoteLink i rc ri) _ _ => [{ index := (i : Int), refCount := rc, refIndex := ri }]
  | .mk (.image _ _) _ _ => []
  | .mk _ _ cs => linksOfL cs
def linksOfL : List GM.Node → List GM.Footnote.Link
  | [] => []
  | n :: rest => linksOf n ++ linksOfL rest
end

mutual
/-- the FootnoteBacklink nodes below a node, in output order -/
def backsOf : GM.Node → List GM.Footnote.Link
  | .mk (.footnoteBacklink i rc ri) _ _ => [{ index := (i : Int), refCount := rc, refIndex := ri }]
  | .mk (.image _ _) _ _ => []
  | .mk _ _ cs => backsOfL cs
def backsOfL : List GM.Node → List GM.Footnote.Link
  | [] => []
  | n :: rest => backsOf n ++ backsOfL rest
end

mutual
/-- the Footnote nodes (`<li id=…>`) in output order: (Index, back-links inside) -/
def itemsOf : GM.Node → List (Nat × List GM.Footnote.Link)
  | .mk (.footnote i) _ cs => [(i, backsOfL cs)]
  | .mk (.image _ _) _ _ => []
  | .mk _ _ cs => itemsOfL cs
def itemsOfL : List GM.Node → List (Nat × List GM.Footnote.Link)
  | [] => []
  | n :: rest => itemsOf n ++ itemsOfL rest
end

/-- the ids / hrefs / shown numbers FootnoteHTMLRenderer writes for the tree (footnote.go:550-626), in output order:
    `(id, back-link targets)` per item, and the references -/
def treeOutput (pre : Bytes) (t : GM.Node) : List (Bytes × List Bytes) × List GM.Spec.Footnote.Ref :=
  ((itemsOf t).map fun p => (GM.Footnote.itemId pre (p.1 : Int), p.2.map (GM.Footnote.linkId pre)),
   (linksOf t).map (GM.Footnote.renderRef pre))

/-- the same two lists of GM.Model.Footnote's output for the abstraction (items without their `src`) -/
def absOutput (pre : Bytes) (labels : List Bytes) (evs : List GM.Footnote.Event) :
    List (Bytes × List Bytes) × List GM.Spec.Footnote.Ref :=
  let o := GM.Footnote.render pre labels evs
  (o.items.map fun it => (it.id, it.backs), o.refs)

/-- EVALUATED by the tie on every document (flag `c`): the tree `convertF` renders shows exactly the output
    GM.Props.C16.footnote_consistent speaks about -/
def treeShowsAbsB (on guard : Bool) (pre : Bytes) (uc : List (Nat × (Bool × Bool))) (src : Bytes) : Bool :=
  match parsePhases on guard uc src with
  | .error _ => true
  | .ok (f, st, t) =>
    let labels := labelsOf f st
    let evs := events labels t
    treeOutput pre (finishDoc f.list.isSome (GM.Footnote.transform labels evs) t) == absOutput pre labels evs

end GM.ConvertF
