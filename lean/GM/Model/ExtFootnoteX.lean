/-
  GM.Model.ExtFootnoteX — the ACCEPT paths of extension.Footnote's two parsers (extension/footnote.go) on the concrete
  block and inline models. The decline decisions are those of GM.Ext.footnoteOpen / GM.Ext.footnoteParse
  (GM.Model.ExtDecline, tied by component `extdecline`); `GM.Ext.findClosureBr` (the deprecated util.FindClosure) is reused.

    footnote.go:36-72    (*footnoteBlockParser).Open       `fnOpen`
    footnote.go:74-85    (*footnoteBlockParser).Continue   `fnContinue`
    footnote.go:87-105   (*footnoteBlockParser).Close      `fnClose` (after repair 07925b6: the list is inserted in front of
                                                           the OUTERMOST Footnote ancestor of the node, `anchorLoop`)
    footnote.go:107-113  CanInterruptParagraph = true, CanAcceptIndentedLine = false
    footnote.go:132-191  (*footnoteParser).Parse           `parseFootnote`

  STATE. The block nodes of GM.Blocks have no `Ref` / `Index` field, `GM.Blocks.Kind` has no Footnote / FootnoteList, and the
  parse context of GM.Blocks has no `footnoteListKey`: as in GM.Model.ConvertH the state the extension adds lives in a second
  layer `FS` under `MF = StateT FS M` — the context key (`list`) and the `Ref` of every `ast.Footnote` by node (`refs`; a
  node is an `ast.Footnote` iff it has an entry). In the node store a Footnote and the FootnoteList are nodes of kind
  `.blockquote` (a container kind no block parser of GM.Blocks tests for); the `M` functions cannot see `FS` (by typing).

  ENCODING of the inline node. `GM.Inl.Node` is a closed type: `ast.NewFootnoteLink(index)` (a leaf) is represented as
  `.emphasis (-(3 + k)) []`, `k` = the position (in the list's child order) of the definition the label resolved to; levels
  ≤ -3 are built by nothing else (the emphasis processor builds 1, 2; GM.Model.ExtStrike / ExtTask use 0, -1, -2). The
  `Index` is NOT stored in the node: it is assigned at the first reference in inline-phase order, which is what
  GM.Footnote.inlinePhase computes from the sequence of these nodes (`GM.ConvertF.events`); the lookup itself
  (footnote.go:162-172: first definition whose `Ref` equals the label, `index == 0` ⇒ nil) depends only on the labels, which
  are fixed once the block phase is over (`resolve`). Core Lean only.
-/
import GM.Model.Blocks.DriverT
import GM.Model.InlinesLoopX
import GM.Model.ExtDecline

namespace GM.ConvertF
open GM GM.Text GM.Blocks

/-- what extension.Footnote adds to the parse state of the block phase -/
structure FS where
  /-- `pc.Get(footnoteListKey)`: the FootnoteList node (footnote.go:89-93) -/
  list : Option Nat := none
  /-- `Footnote.Ref` by node, in creation order; a node is an `*ast.Footnote` iff it has an entry -/
  refs : List (Nat × Bytes) := []
  deriving Repr

abbrev MF := StateT FS M

/-- an `M` computation inside `MF` (it cannot see `FS`) -/
abbrev up {α} (x : M α) : MF α := StateT.lift x

def getF : MF FS := StateT.get
def setF (f : FS) : MF Unit := StateT.set f

/-- `p.Kind() == ast.KindFootnote` / `p.(*ast.Footnote)` -/
def FS.isFn (f : FS) (id : Nat) : Bool := (f.refs.lookup id).isSome

/-- `n.(*ast.Footnote).Ref` -/
def FS.refOf (f : FS) (id : Nat) : Bytes := (f.refs.lookup id).getD []

/-! ### the block parser -/

/-- footnote.go:37-57, the tests on the peeked line with `pos = pc.BlockOffset()`: `some (open, closes, next)` when the line
    has the form `[^…]:` there (`none`: `return nil, parser.NoChildren`) -/
def fnOpenScan (line : Bytes) (pos : Int) : Except Panic (Option (Int × Int × Int)) := do
  let len : Int := line.length
  if pos < 0 then return none
  if (← idx line pos) != 91 then return none                                       -- `line[pos] != '['`
  let pos := pos + 1
  if pos > len - 1 then return none
  if (← idx line pos) != 94 then return none                                       -- `line[pos] != '^'`
  let open_ := pos + 1
  match GM.Ext.findClosureBr (line.drop (pos + 1).toNat) 0 with                    -- util.FindClosure(line[pos+1:], '[', ']', false, false)
  | none => return none
  | some closure =>
    let closes : Int := pos + 1 + closure
    let next := closes + 1
    if next ≥ len then return none
    if (← idx line next) != 58 then return none                                    -- `line[next] != ':'`
    return some (open_, closes, next)

/-- (*footnoteBlockParser).Open (footnote.go:36-72) -/
def fnOpen (_parent : Nat) : MF (Option Nat × PState) := do
  let (line, segment) ← up peekLine
  let line := line.getD []
  let len : Int := line.length
  let pos := (← up getPc).blockOffset
  match ← up (liftE (fnOpenScan line pos)) with
  | none => return (none, stNoChildren)
  | some (open_, closes, next) =>
    let padding := segment.padding
    let src ← up source
    -- reader.Value(text.NewSegment(segment.Start+open-padding, segment.Start+closes-padding))
    let label ← up (liftE (Segment.value { start := segment.start + open_ - padding, stop := segment.start + closes - padding } src))
    if isBlank label then return (none, stNoChildren)
    let item ← up (newNode { kind := .blockquote })                                -- ast.NewFootnote(label): Ref, Index -1
    let f ← getF
    setF { f with refs := f.refs ++ [(item, label)] }
    let pos := next + 1 - padding
    if pos ≥ len then
      up (advance pos)
      return (some item, stNoChildren)
    up (advanceAndSetPadding pos padding)
    return (some item, stHasChildren)

/-- (*footnoteBlockParser).Continue (footnote.go:74-85) -/
def fnContinue (_node : Nat) : MF PState := do
  let (line, _) ← up peekLine
  let line := line.getD []
  if isBlank line then return stContinueHasChildren
  let (childpos, padding) := indentPosition line (← up lineOffset) 4
  if childpos < 0 then return stClose
  up (advanceAndSetPadding childpos padding)
  return stContinueHasChildren

/-- the loop footnote.go:96-100 `for p := node.Parent(); p != nil; p = p.Parent() { if p.Kind() == KindFootnote { anchor = p } }`:
    `p` = the current ancestor (`none` = nil), `anchor` so far. One unit of fuel per ancestor; `none` = out of fuel (the
    parent chain of a node of an acyclic store is shorter than the store). -/
def anchorLoop (f : FS) (nodes : List Node) : Nat → Option Nat → Nat → Option Nat
  | 0, _, _ => none
  | _ + 1, none, anchor => some anchor
  | k + 1, some p, anchor => anchorLoop f nodes k (nodes.getD p default).parent (if f.isFn p then p else anchor)

/-- (*footnoteBlockParser).Close (footnote.go:87-105) -/
def fnClose (node : Nat) : MF Unit := do
  let f ← getF
  let list ← match f.list with
    | some l => pure l                                                             -- tlist.(*ast.FootnoteList)
    | none => do
      let l ← up (newNode { kind := .blockquote })                                 -- ast.NewFootnoteList(): Count 0
      setF { f with list := some l }
      let st ← up get
      match anchorLoop f st.nodes (st.nodes.length + 1) (st.nodes.getD node default).parent node with
      | none => throw .loop
      | some anchor =>
        match (st.nodes.getD anchor default).parent with
        | none => throw .nil                                                       -- anchor.Parent().InsertBefore on a nil parent
        | some ap => up (insertBefore ap (some anchor) l)
      pure l
  match (← up (getNode node)).parent with
  | none => throw .nil                                                             -- node.Parent().RemoveChild on a nil parent
  | some p => up (removeChild p node)
  up (appendChild list node)

/-! ### the inline parser -/

/-- the representation of `ast.NewFootnoteLink(index)` for the definition at position `k` of the list -/
def fnLinkNode (k : Nat) : GM.Inl.Node := .emphasis (-(3 + (k : Int))) []

/-- the definition position a level encodes (`none`: not a FootnoteLink) -/
def fnLinkPos? (lv : Int) : Option Nat := if lv ≤ -3 then some (-lv - 3).toNat else none

/-- the loop footnote.go:162-172 as far as it decides WHICH definition is meant: the first child of the list whose `Ref`
    equals `value` (`none`: `index` stays 0) -/
def resolve : List Bytes → Bytes → Nat → Option Nat
  | [], _, _ => none
  | l :: ls, v, k => if l == v then some k else resolve ls v (k + 1)

/-- (*footnoteParser).Parse (footnote.go:132-191). `refs` = the `Ref`s of the list's children (`none`: the context holds no
    FootnoteList). -/
def parseFootnote (refs : Option (List Bytes)) (_env : GM.Inl.Env) (st : GM.Inl.St) : GM.Inl.PRes := do
  let ((line, segment), rd) ← st.rd.peekLine
  let st := { st with rd := rd }
  let line := line.getD []
  let bang := line.head? == some 33                                                -- `len(line) > 0 && line[0] == '!'`
  let pos := if bang then 2 else 1
  if pos ≥ line.length || line.getD pos 0 != 94 then return (none, st)
  let pos := pos + 1
  if pos ≥ line.length then return (none, st)
  let open_ := pos
  match GM.Ext.findClosureBr (line.drop pos) 0 with                                -- util.FindClosure(line[pos:], '[', ']', false, false)
  | none => return (none, st)
  | some closure =>
    let closes := pos + closure
    -- block.Value(text.NewSegment(segment.Start+open, segment.Start+closes))
    let value ← st.rd.valueOp { start := segment.start + (open_ : Int), stop := segment.start + (closes : Int) }
    let rd ← st.rd.advance ((closes : Int) + 1)
    let st := { st with rd := rd }
    match refs with
    | none => return (none, st)                                                    -- `list == nil`
    | some rs =>
      match resolve rs value 0 with
      | none => return (none, st)                                                  -- `index == 0`
      | some k =>
        -- `if line[0] == '!' { parent.AppendChild(parent, NewTextSegment(NewSegment(segment.Start, segment.Start+1))) }`
        let kids := if bang then st.kids ++ [GM.Inl.textOf { start := segment.start, stop := segment.start + 1 }] else st.kids
        return (some (fnLinkNode k), { st with kids := kids })

/-- extension.NewFootnoteParser(): Trigger() = {'!', '['} -/
def footnoteParser (refs : Option (List Bytes)) : GM.Inl.XParser := { triggers := [33, 91], parse := parseFootnote refs }

/-- `p.inlineParsers[b]` (parser.go:778-793) with the footnote parser (priority 101) registered: behind the code span
    parser (100, trigger `` ` ``), in FRONT of the link parser (200) in the entries of `!` and `[` -/
def inlineTblF (on : Bool) (refs : Option (List Bytes)) (b : UInt8) : List GM.Inl.XIp :=
  if on && (b == 33 || b == 91) then .ext (footnoteParser refs) :: GM.Inl.baseTbl b
  else GM.Inl.baseTbl b

end GM.ConvertF
