/-
  GM.Model.ByteClass — closed forms of util/util.go's byte-class tables. Each closed form is tied to the
  table literal REGENERATED from /repo by a kernel-checked theorem (`*_tbl`, `decide +kernel` over all
  256 bytes): if a table entry changes in the code, the corresponding theorem stops checking.
-/
import GM.Model.Basic
import GM.Gen.UtilTables

namespace GM

def isSpace (c : UInt8) : Bool := c == 9 || c == 10 || c == 13 || c == 32
def isPunct (c : UInt8) : Bool :=
  (33 ≤ c && c ≤ 47) || (58 ≤ c && c ≤ 64) || (91 ≤ c && c ≤ 96) || (123 ≤ c && c ≤ 126)
def isNumeric (c : UInt8) : Bool := 48 ≤ c && c ≤ 57
def isHex (c : UInt8) : Bool := isNumeric c || (97 ≤ c && c ≤ 102) || (65 ≤ c && c ≤ 70)
def isAlpha (c : UInt8) : Bool := (97 ≤ c && c ≤ 122) || (65 ≤ c && c ≤ 90)
def isAlnum (c : UInt8) : Bool := isAlpha c || isNumeric c

/-- `urlEscapeTable[c] == 1`: bytes URLEscape passes through untouched. -/
def urlSafe (c : UInt8) : Bool :=
  c == 33 || c == 35 || c == 36 || (38 ≤ c && c ≤ 59) || c == 61 || (63 ≤ c && c ≤ 90) || c == 95 ||
  (97 ≤ c && c ≤ 122) || c == 126

/-- `utf8lenTable[c]` (99 = invalid leading byte). -/
def utf8len (c : UInt8) : Nat :=
  if c < 128 then 1 else if 194 ≤ c && c ≤ 223 then 2 else if 224 ≤ c && c ≤ 239 then 3
  else if 240 ≤ c && c ≤ 247 then 4 else 99

def urlTbl (c : UInt8) : Nat :=
  if isAlpha c then 7 else if c == 43 || c == 45 || c == 46 || isNumeric c then 5
  else if c ≤ 32 || c == 60 || c == 62 then 0 else 1

def emailTbl (c : UInt8) : Nat :=
  if c == 33 || (35 ≤ c && c ≤ 39) || c == 42 || c == 43 || (45 ≤ c && c ≤ 57) || c == 61 || c == 63 ||
     (65 ≤ c && c ≤ 90) || (94 ≤ c && c ≤ 126) then 1 else 0

/-- `htmlEscapeTable[c]` dereferenced (`[]` = nil entry). -/
def htmlEsc (c : UInt8) : Bytes :=
  if c == 34 then [38, 113, 117, 111, 116, 59]      -- &quot;
  else if c == 38 then [38, 97, 109, 112, 59]       -- &amp;
  else if c == 60 then [38, 108, 116, 59]           -- &lt;
  else if c == 62 then [38, 103, 116, 59]           -- &gt;
  else []

/-- The set `spaces` used by `TrimLeftSpace/TrimRightSpace` (note: includes \v \f, unlike `isSpace`). -/
def isTrimSpace (c : UInt8) : Bool := c == 32 || c == 9 || c == 10 || c == 11 || c == 12 || c == 13

/-! ### ties to the regenerated tables -/

theorem isSpace_tbl : ∀ c : UInt8, isSpace c = (Gen.spaceTable.getD c.toNat 0 == 1) := by
  apply forall_uint8; decide +kernel
theorem isPunct_tbl : ∀ c : UInt8, isPunct c = (Gen.punctTable.getD c.toNat 0 == 1) := by
  apply forall_uint8; decide +kernel
theorem urlSafe_tbl : ∀ c : UInt8, urlSafe c = (Gen.urlEscapeTable.getD c.toNat 0 == 1) := by
  apply forall_uint8; decide +kernel
theorem utf8len_tbl : ∀ c : UInt8, utf8len c = Gen.utf8lenTable.getD c.toNat 0 := by
  apply forall_uint8; decide +kernel
theorem urlTbl_tbl : ∀ c : UInt8, urlTbl c = Gen.urlTable.getD c.toNat 0 := by
  apply forall_uint8; decide +kernel
theorem emailTbl_tbl : ∀ c : UInt8, emailTbl c = Gen.emailTable.getD c.toNat 0 := by
  apply forall_uint8; decide +kernel
theorem htmlEsc_tbl : ∀ c : UInt8, htmlEsc c = Gen.htmlEscapeTable.getD c.toNat [] := by
  apply forall_uint8; decide +kernel
theorem isTrimSpace_tbl : ∀ c : UInt8, isTrimSpace c = Gen.spaces.contains c := by
  apply forall_uint8; decide +kernel
theorem tables_len :
    Gen.spaceTable.length = 256 ∧ Gen.punctTable.length = 256 ∧ Gen.urlEscapeTable.length = 256 ∧
    Gen.utf8lenTable.length = 256 ∧ Gen.urlTable.length = 256 ∧ Gen.emailTable.length = 256 ∧
    Gen.htmlEscapeTable.length = 256 := by decide +kernel
theorem htmlSpace_eq : Gen.htmlSpace = [37, 50, 48] := by decide

end GM
