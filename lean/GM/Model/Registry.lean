/-
  GM.Model.Registry — how goldmark turns *registrations* (value + priority) into dispatch tables and how
  the tables are consulted. Core Lean only.

  Modelled Go code (as of repair 98f3cce):
    util/util.go      :877-900   PrioritizedSlice.Sort (sort.Slice: UNSTABLE, hence `sort` is a parameter
                                 constrained by `SortContract`), Prioritized
    markdown.go       :57-118    New, WithParserOptions/WithRendererOptions (AddOptions at once),
                                 WithExtensions (queued, extended after all options, in order)
    parser/parser.go  :632-699   With{Block,Inline}Parsers / With{Paragraph,AST}Transformers append to the config
                      :727-745   NewParser, AddOptions (nil config after the first Parse -> nil dereference)
                      :747-823   addBlockParser / addInlineParser / addParagraphTransformer / addASTTransformer
                      :842-866   the sync.Once table build in Parse
                      :881-889   transformParagraph (stops after the transformer that detached the paragraph)
                      :928-959, :961-968, :1012  openBlocks: list selection for the byte at the block offset,
                                 skipping rules, first node != nil wins
                      :1046-1127 parseBlocks, restricted to scripted leaf blocks that close after one line
                      :1177-1225 parseBlock: positions at which inline parsers are consulted, first non-nil wins
    renderer/renderer.go :119-134 AddOptions, Register ; :137-160 table build ; :165-176 kind dispatch
    ast/ast.go        :505-527   Walk / walkHelper
-/
import GM.Model.Basic
import GM.Model.ByteClass

namespace GM.Registry
open GM

/-! ## Prioritized values, the sort contract, carriers -/

/-- `util.PrioritizedValue` -/
structure PV (α : Type) where
  prio : Int
  val : α
deriving Repr

/-- ascending (non-strict) in priority — what `PrioritizedSlice.Sort` guarantees -/
def Ascending {α} (l : List (PV α)) : Prop := l.Pairwise (fun a b => a.prio ≤ b.prio)

/-- All that is known about `sort.Slice(s, less-by-priority)`: the result is a permutation of the input
    and ascending. Nothing is assumed about the order of equal priorities (the sort is unstable). -/
structure SortContract {α} (sort : List (PV α) → List (PV α)) : Prop where
  perm : ∀ l, (sort l).Perm l
  asc : ∀ l, Ascending (sort l)

/-- insertion of one value before the first strictly larger priority -/
def insertPV {α} (a : PV α) : List (PV α) → List (PV α)
  | [] => [a]
  | b :: l => if a.prio ≤ b.prio then a :: b :: l else b :: insertPV a l

/-- a concrete (stable) sort satisfying the contract; used by the driver -/
def isort {α} : List (PV α) → List (PV α)
  | [] => []
  | a :: l => insertPV a (isort l)

/-- a second concrete sort satisfying the contract that orders ties the other way round -/
def isortRev {α} (l : List (PV α)) : List (PV α) := isort l.reverse

/-- An option of `goldmark.New` as far as one configuration slice is concerned. -/
inductive MdOption (α : Type)
  /-- `WithParserOptions(parser.WithXxx(pvs...))` / `WithRendererOptions(renderer.WithNodeRenderers(pvs...))`:
      `AddOptions` runs immediately -/
  | withOptions (pvs : List (PV α))
  /-- `WithExtensions(exts...)`: queued; each extension's `Extend` later calls `AddOptions` with its values -/
  | withExtensions (exts : List (List (PV α)))

structure MdState (α : Type) where
  config : List (PV α)
  exts : List (List (PV α))

def MdOption.apply {α} (m : MdState α) : MdOption α → MdState α
  | .withOptions pvs => { m with config := m.config ++ pvs }
  | .withExtensions es => { m with exts := m.exts ++ es }

/-- `goldmark.New(WithParser(NewParser(ctor…)), opts…)`: the configuration slice as it is when the first
    `Parse`/`Render` sorts it. -/
def mdNew {α} (ctor : List (PV α)) (opts : List (MdOption α)) : List (PV α) :=
  let m := opts.foldl MdOption.apply ⟨ctor, []⟩
  m.exts.foldl (· ++ ·) m.config

/-- all values an option list carries (in any order) -/
def MdOption.values {α} : MdOption α → List (PV α)
  | .withOptions pvs => pvs
  | .withExtensions es => es.flatten

/-! ## Go panics -/

inductive Panic | explicit | nilDeref
deriving Repr, DecidableEq

/-- `v.Value.(T)`: `none` models a registered value whose dynamic type does not implement the interface. -/
def checkAll {α} : List (PV (Option α)) → Option (List (PV α))
  | [] => some []
  | ⟨p, some v⟩ :: l => (checkAll l).map (⟨p, v⟩ :: ·)
  | ⟨_, none⟩ :: _ => none

/-- The configuration owned by a parser or renderer: `none` after the first `Parse`/`Render`
    (`p.config = nil`). -/
def addOptions {α} (config : Option (List (PV α))) (pvs : List (PV α)) : Except Panic (Option (List (PV α))) :=
  match config with
  | none => .error .nilDeref           -- `c.BlockParsers = append(c.BlockParsers, …)` with c == nil
  | some l => .ok (some (l ++ pvs))

/-! ## Parser tables -/

structure BlockParser where
  id : Nat
  /-- `Trigger()`; `none` = nil (a "free" parser). `some []` is a non-nil empty slice: such a parser is
      entered in no list at all. -/
  trig : Option Bytes
  canInterrupt : Bool
  canIndent : Bool
deriving Repr

structure InlineParser where
  id : Nat
  trig : Bytes
deriving Repr

abbrev Tab (α : Type) := UInt8 → Option (List α)

def Tab.empty {α} : Tab α := fun _ => none

/-- `if t[tc] == nil { t[tc] = []P{} }; t[tc] = append(t[tc], p)` -/
def Tab.push {α} (t : Tab α) (tc : UInt8) (p : α) : Tab α :=
  fun b => if b = tc then some ((t tc).getD [] ++ [p]) else t b

structure BlockTables where
  tab : Tab BlockParser
  free : List BlockParser

/-- parser.go:747-769 -/
def addBlockParser (t : BlockTables) (p : BlockParser) : BlockTables :=
  match p.trig with
  | none => { t with free := t.free ++ [p] }
  | some tcs => { t with tab := tcs.foldl (fun tab tc => tab.push tc p) t.tab }

/-- parser.go:843-851: add in sorted order, then append the free parsers to every non-nil list -/
def buildBlock (sorted : List (PV BlockParser)) : BlockTables :=
  let t := sorted.foldl (fun t v => addBlockParser t v.val) ⟨Tab.empty, []⟩
  { t with tab := fun b => (t.tab b).map (· ++ t.free) }

/-- parser.go:771-793 (the close-blocker list is not modelled) -/
def addInlineParser (t : Tab InlineParser) (p : InlineParser) : Tab InlineParser :=
  p.trig.foldl (fun tab tc => tab.push tc p) t

def buildInline (sorted : List (PV InlineParser)) : Tab InlineParser :=
  sorted.foldl (fun t v => addInlineParser t v.val) Tab.empty

/-- parser.go:857-864: transformers are appended in sorted order -/
def buildTransformers {α} (sorted : List (PV α)) : List α := sorted.map (·.val)

/-! ### specification vocabulary for the tables (used by the theorems, not by the driver) -/

/-- how often `p` is entered into the list of byte `b`: once per occurrence of `b` in `Trigger()` -/
def occ (b : UInt8) (p : BlockParser) : List BlockParser := List.replicate ((p.trig.getD []).count b) p

/-- the parsers triggered by `b`, in the order of `ps` -/
def triggered (b : UInt8) (ps : List BlockParser) : List BlockParser := ps.flatMap (occ b)

/-- the trigger-less parsers, in the order of `ps` -/
def frees (ps : List BlockParser) : List BlockParser := ps.filter (·.trig.isNone)

def triggeredI (b : UInt8) (ps : List InlineParser) : List InlineParser :=
  ps.flatMap fun p => List.replicate (p.trig.count b) p

/-- the order in which two registered block parsers may be asked on one line: a triggered parser before a
    trigger-less one; within the same class by ascending priority -/
def AskedBefore (a b : PV BlockParser) : Prop :=
  (a.val.trig.isNone = true → b.val.trig.isNone = true) ∧ (a.val.trig.isNone = b.val.trig.isNone → a.prio ≤ b.prio)

/-! ## Consulting the tables -/

/-- parser.go:949-955: the list tried for a line whose first non-space byte is `c` (`none`: the block offset
    lies beyond the line) -/
def lookupBlock (t : BlockTables) (c : Option UInt8) : List BlockParser :=
  match c with
  | none => t.free
  | some c => match t.tab c with
    | none => t.free
    | some l => l

/-- parser.go:961-966: parsers passed over without being asked -/
def skipBlock (continuable indented : Bool) (p : BlockParser) : Bool :=
  (continuable && !p.canInterrupt) || (indented && !p.canIndent)

/-- One pass over a parser list: every parser that is not skipped is asked in list order until one accepts.
    Returns the parsers asked (in order, the acceptor last) and the acceptor. -/
def consult {α} (skip accept : α → Bool) : List α → List α × Option α
  | [] => ([], none)
  | p :: ps =>
    if skip p then consult skip accept ps
    else if accept p then ([p], some p)
    else let r := consult skip accept ps; (p :: r.1, r.2)

/-- parser.go:881-889: transformers run in order; the one after which the paragraph has no parent is the last -/
def transformParagraph {α} (removes : α → Bool) (ts : List α) : List α × Bool :=
  let r := consult (fun _ => false) removes ts
  (r.1, r.2.isSome)

/-! ### block phase for scripted one-line blocks -/

inductive Decision | decline | leaf | para
deriving Repr, DecidableEq

/-- a non-blank line: indentation width and the byte at the block offset -/
structure Line where
  w : Nat
  c : Option UInt8
deriving Repr

structure BlockGroup where
  line : Nat
  asked : List Nat
  winner : Option Nat
deriving Repr

structure BlockLog where
  groups : List BlockGroup := []
  paras : List (List Nat) := []      -- per closed paragraph: ids of the transformers run on it
deriving Repr

def BlockLog.append (a b : BlockLog) : BlockLog := ⟨a.groups ++ b.groups, a.paras ++ b.paras⟩

/-- parser.go:891-909 for the single open block: a paragraph is handed to the paragraph transformers.
    `n` is the ordinal of the paragraph among the closed paragraphs. -/
def closeOpen (pts : List Nat) (removes : Nat → Nat → Bool) (n : Nat) : Option Bool → BlockLog × Nat
  | some true => (⟨[], [(transformParagraph (fun t => removes t n) pts).1]⟩, n + 1)
  | _ => (⟨[], []⟩, n)

/-- parseBlocks/openBlocks when every block parser is a scripted probe (`script id line`) whose blocks have
    no children and close on the next line. `opened`: is a block open, and is it a paragraph. -/
def runBlocks (t : BlockTables) (pts : List Nat) (script : Nat → Nat → Decision) (removes : Nat → Nat → Bool) :
    List Line → Nat → Nat → Option Bool → BlockLog
  | [], _, n, opened => (closeOpen pts removes n opened).1
  | ln :: rest, i, n, opened =>
    if ln.c.isNone && opened.isNone then ⟨[], []⟩      -- SkipBlankLines consumed it: end of input
    else
      let r := consult (skipBlock (opened == some true) (decide (ln.w > 3)))
                 (fun p => script p.id i != .decline) (lookupBlock t ln.c)
      let g : BlockLog := ⟨[⟨i, r.1.map (·.id), r.2.map (·.id)⟩], []⟩
      match r.2, opened with
      | some p, _ =>
        let cl := closeOpen pts removes n opened
        (g.append cl.1).append (runBlocks t pts script removes rest (i + 1) cl.2 (some (script p.id i == .para)))
      | none, none => g                       -- parser.go:1070: nothing opened at top level ends the parse
      | none, some _ =>
        let cl := closeOpen pts removes n opened
        (g.append cl.1).append (runBlocks t pts script removes rest (i + 1) cl.2 none)

/-! ### inline phase for one line of paragraph text -/

structure InlineGroup where
  off : Nat
  ch : UInt8
  asked : List Nat
  winner : Option Nat
deriving Repr

/-- parser.go:1177-1225 for a line without newline and hard-break suffix: at which offsets and for which
    table index the inline parsers are consulted. `script id off` = number of bytes the parser consumes at
    `off` (0 = declines). After an acceptance the scan restarts on the remaining text (`goto retry`), so the
    next byte counts as a head of line; `escaped` survives the restart. -/
def scanInline (tab : Tab InlineParser) (escapedSpace : Bool) (script : Nat → Nat → Nat) :
    Bytes → Nat → Bool → Bool → List InlineGroup
  | [], _, _, _ => []
  | c :: rest, off, first, escaped =>
    if c == 10 then [] else
    let sp := isSpace c && c != 13 && c != 10
    let pu := isPunct c
    let step (_ : Unit) : List InlineGroup :=
      if escaped then scanInline tab escapedSpace script rest (off + 1) false false
      else if c == 92 then scanInline tab escapedSpace script rest (off + 1) false true
      else scanInline tab escapedSpace script rest (off + 1) false false
    if (pu && !escaped) || (sp && !(escaped && escapedSpace)) || first then
      let pc : UInt8 := if sp || (first && !pu) then 32 else c
      match tab pc with
      | none => step ()
      | some ips =>
        let r := consult (fun _ => false) (fun p => script p.id off != 0) ips
        let g : InlineGroup := ⟨off, pc, r.1.map (·.id), r.2.map (·.id)⟩
        match r.2 with
        | some p =>
          let k := script p.id off
          g :: scanInline tab escapedSpace script (rest.drop (k - 1)) (off + 1 + min (k - 1) rest.length) true escaped
        | none => g :: step ()
    else step ()
termination_by l => l.length
decreasing_by
  all_goals simp_wf
  all_goals first | omega | (simp only [List.length_drop]; omega)

/-! ## Renderer -/

structure NodeRenderer where
  id : Nat
  /-- the kinds `RegisterFuncs` registers a function for, in call order -/
  kinds : List Nat
deriving Repr

/-- `nodeRendererFuncsTmp` and `maxKind` -/
structure RegState where
  tmp : Nat → Option Nat
  maxKind : Nat

/-- renderer.go:127-132 -/
def register (s : RegState) (kind id : Nat) : RegState :=
  { tmp := fun k => if k = kind then some id else s.tmp k,
    maxKind := if kind > s.maxKind then kind else s.maxKind }

def registerFuncs (s : RegState) (r : NodeRenderer) : RegState :=
  r.kinds.foldl (fun s k => register s k r.id) s

/-- renderer.go:141-155: after sorting, `RegisterFuncs` is called from the LAST (highest priority value) to the
    first, so that the lowest value overwrites; then the map is copied into a slice of length maxKind+1. -/
def buildRenderer (sorted : List (PV NodeRenderer)) : List (Option Nat) :=
  let s := sorted.reverse.foldl (fun s v => registerFuncs s v.val) ⟨fun _ => none, 0⟩
  (List.range (s.maxKind + 1)).map s.tmp

/-- renderer.go:169-171 (with repair 98f3cce): a kind beyond the table has no function -/
def dispatchKind (table : List (Option Nat)) (kind : Nat) : Option Nat :=
  if h : kind < table.length then table[kind] else none

inductive Tree where
  | node (kind : Nat) (children : List Tree)
deriving Repr

inductive Status | continue | skipChildren | stop
deriving Repr, DecidableEq

structure Event where
  id : Nat
  kind : Nat
  entering : Bool
deriving Repr, DecidableEq

/-- the walker closure of `Render`: no function ⇒ `WalkContinue`, nothing is called -/
def callRenderer (table : List (Option Nat)) (script : Nat → Nat → Bool → Status) (kind : Nat) (entering : Bool) :
    List Event × Status :=
  match dispatchKind table kind with
  | none => ([], .continue)
  | some id => ([⟨id, kind, entering⟩], script id kind entering)

mutual
/-- ast.go:510-527 walkHelper -/
def walk (table : List (Option Nat)) (script : Nat → Nat → Bool → Status) : Tree → List Event × Status
  | .node kind children =>
    let e := callRenderer table script kind true
    if e.2 = .stop then (e.1, .stop)
    else
      let cs : List Event × Status :=
        if e.2 = .skipChildren then ([], .continue) else walkList table script children
      if cs.2 = .stop then (e.1 ++ cs.1, .stop)
      else
        let l := callRenderer table script kind false
        (e.1 ++ cs.1 ++ l.1, if l.2 = .stop then .stop else .continue)
/-- the children loop: stops at the first child that reports `WalkStop` -/
def walkList (table : List (Option Nat)) (script : Nat → Nat → Bool → Status) : List Tree → List Event × Status
  | [] => ([], .continue)
  | c :: cs =>
    let r := walk table script c
    if r.2 = .stop then (r.1, .stop)
    else let rs := walkList table script cs; (r.1 ++ rs.1, rs.2)
end

end GM.Registry
