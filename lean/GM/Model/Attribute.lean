/-
  GM.Model.Attribute — parser/attribute.go (ParseAttributes and its helpers, 44-329) and the glue that attaches
  parsed attributes to headings: parser/atx_heading.go (Open with `Attribute` 82-166, Close 172-190,
  generateAutoHeadingID 200-209, parseLastLineAttributes 211-251), parser/setext_headings.go Close (106-120),
  ast/ast.go SetAttribute (414-427). Core Lean only.

  The reader. attribute.go talks to a `text.Reader` through Peek / Advance / PeekLine / Position / SetPosition /
  SkipSpaces only. Every caller hands it a source reader (`text.NewReader`) without virtual padding: the one built by
  `parseLastLineAttributes`, and the document reader after `Advance(closureClose)` in atxHeadingParser.Open (which has
  consumed any padding). Such a reader is the cursor `RCur` of GM.Spec.Cursor (C18: GM.Model.Reader refines it) with
  `pad = 0`: it is determined by the byte offset `p` into the source. The operations, in closed form:
    Peek            = `peekAt src p`     (reader.go:137-145; 0xFF at the end of the source — also for a real 0xFF byte)
    Advance(n)      = `adv src p n`      (reader.go:194-214; stops at the end of the source)
    PeekLine        = `restLine src p`   (reader.go:147-155; nil at the end — only `len` and indexing are applied to it)
    SkipSpaces      = `skipWs src p`     (reader.go:516-532: consumes util.IsSpace bytes, crossing line ends)
    Position / SetPosition = reading / restoring `p` (line number and Stop are functions of `p`: `lineOf`, `lineEnd`)
  The tie (component `attribute`) compares the reported Position (line, Start, Stop) with `lineOf`/`p`/`lineEnd`.

  Go panics are explicit: `Res.panic`. The mutually recursive functions take fuel; `Res.fuel` = fuel exhausted
  (GM.Props.Attribute.parseAttributes_total: never, with the fuel `parseAttributes` supplies).
-/
import GM.Model.Reader
import GM.Model.Util
import GM.Model.Tree
import GM.Model.Ids
import GM.Model.LineRec

namespace GM.Attr
open GM GM.Text

/-! ### values -/

/-- the dynamic types attribute.go produces for `Attribute.Value`: `[]byte`, `float64` (as its IEEE-754 bits),
    `bool`, `nil`, `Attributes` (a nested `{…}`), `[]interface{}` -/
inductive Val where
  | bytes (b : Bytes)
  | num (bits : Nat)
  | bool (b : Bool)
  | null
  | attrs (as : List (Bytes × Val))
  | arr (vs : List Val)

/-- parser.Attribute -/
abbrev PAttr := Bytes × Val

def Val.isBytes : Val → Bool
  | .bytes _ => true
  | _ => false

/-- outcome of one of attribute.go's functions: `(value, true)` with the reader at `p`; `(_, false)`; a Go panic;
    out of fuel. After a `false` the reader position is only ever observed through ParseAttributes, which restores
    the position it started from (attribute.go:52, 64). -/
inductive Res (α : Type) where
  | ok (v : α) (p : Nat)
  | fail
  | panic (k : Panic)
  | fuel

def Res.pos? {α : Type} : Res α → Option Nat
  | .ok _ p => some p
  | _ => none
def Res.val? {α : Type} : Res α → Option α
  | .ok v _ => some v
  | _ => none
def Res.isFail {α : Type} : Res α → Bool
  | .fail => true
  | _ => false

/-! ### the reader in closed form -/

def peekAt (src : Bytes) (p : Nat) : UInt8 := src[p]?.getD 255
def adv (src : Bytes) (p n : Nat) : Nat := if p + n ≤ src.length then p + n else src.length
def restLine (src : Bytes) (p : Nat) : Bytes := (src.drop p).take (lineLen (src.drop p))
def skipWs (src : Bytes) (p : Nat) : Nat := p + ((src.drop p).takeWhile isSpace).length
/-- the line number Position reports: newlines in front of `p` -/
def lineOf (src : Bytes) (p : Nat) : Nat := ((src.take p).filter (· == 10)).length

/-! ### strconv.ParseFloat(s, 64) on the strings parseAttributeNumber builds: `digits [. digits] [(e|E) [+|-] digits]`

Correctly rounded (round half to even) conversion with exact integer arithmetic; `none` = `err != nil`
(syntax: exponent without digits; range: the rounded value overflows). Mirrors strconv's exponent accumulation
`if e < 10000 { e = e*10 + digit }` (atof.go readFloat / decimal.set) so that absurd exponents agree too. -/

def natOfDigits (ds : Bytes) : Nat := ds.foldl (fun a d => a * 10 + (d.toNat - 48)) 0
def expOfDigits (ds : Bytes) : Nat := ds.foldl (fun e d => if e < 10000 then e * 10 + (d.toNat - 48) else e) 0

/-- `(quotient, remainder, denominator)` of `N / (D · 2^k)` -/
def scaleQ (N D : Nat) (k : Int) : Nat × Nat × Nat :=
  if k ≥ 0 then
    let den := D * 2 ^ k.toNat
    (N / den, N % den, den)
  else
    let num := N * 2 ^ (-k).toNat
    (num / D, num % D, D)

/-- IEEE-754 binary64 bits of `m · 10^e10` rounded to nearest-even; `none` = overflow -/
def roundF64 (m : Nat) (e10 : Int) : Option Nat :=
  if m == 0 then some 0 else
  let nd : Int := (Nat.toDigits 10 m).length
  let dp := nd + e10
  if dp > 310 then none
  else if dp < -330 then some 0
  else
    let N := if e10 ≥ 0 then m * 10 ^ e10.toNat else m
    let D := if e10 ≥ 0 then 1 else 10 ^ (-e10).toNat
    let k0 : Int := (N.log2 : Int) - (D.log2 : Int) - 52
    let q0 := (scaleQ N D k0).1
    let k1 := if q0 ≥ 2 ^ 53 then k0 + 1 else if q0 < 2 ^ 52 then k0 - 1 else k0
    let k := if k1 < -1074 then -1074 else k1
    let (q, r, den) := scaleQ N D k
    let q' := if 2 * r > den || (2 * r == den && q % 2 == 1) then q + 1 else q
    let q'' := if q' == 2 ^ 53 then 2 ^ 52 else q'
    let k' := if q' == 2 ^ 53 then k + 1 else k
    if q'' < 2 ^ 52 then some q''
    else if k' + 52 > 1023 then none
    else some ((k' + 1075).toNat * 2 ^ 52 + (q'' - 2 ^ 52))

/-- `strconv.ParseFloat(d1 [. d2] [e [sign] d3], 64)`; `ex = some (neg, d3)` when an exponent part was scanned -/
def parseFloatBits (d1 d2 : Bytes) (ex : Option (Bool × Bytes)) : Option Nat :=
  match ex with
  | some (_, []) => none                                   -- "1e", "1e+": syntax error
  | some (neg, d3) =>
    let e := expOfDigits d3
    roundF64 (natOfDigits (d1 ++ d2)) ((if neg then -(e : Int) else (e : Int)) - d2.length)
  | none => roundF64 (natOfDigits (d1 ++ d2)) (-(d2.length : Int))

/-! ### the leaf parsers -/

/-- attribute.go:96-98: characters of an `#id` / `.class` shorthand value -/
def isIdChar (c : UInt8) : Bool := !isSpace c && (!isPunct c || c == 95 || c == 45 || c == 58 || c == 46)
/-- attribute.go:110-111, 303-304: first character of a name / bare value -/
def isNameStart (c : UInt8) : Bool := (97 ≤ c && c ≤ 122) || (65 ≤ c && c ≤ 90) || c == 95 || c == 58
/-- attribute.go:117-119, 310-312 -/
def isNameChar (c : UInt8) : Bool :=
  (97 ≤ c && c ≤ 122) || (65 ≤ c && c ≤ 90) || (48 ≤ c && c ≤ 57) || c == 95 || c == 58 || c == 46 || c == 45

def nameId : Bytes := [105, 100]                    -- "id"
def nameClass : Bytes := [99, 108, 97, 115, 115]    -- "class"

/-- the scanning loop of parseAttributeString (attribute.go:206-243) over `line[i:]`: `some (i, buf)` = the closing
    quote is at index `i`, `none` = the line ended first -/
def strScan : Bytes → Nat → Bytes → Option (Nat × Bytes)
  | [], _, _ => none
  | [c], i, buf => if c == 34 then some (i, buf) else none   -- `i == l-1`: a backslash is copied, then the loop ends
  | c :: n :: rest, i, buf =>
    if c == 92 then
      if n == 34 || n == 47 || n == 92 then strScan rest (i + 2) (buf ++ [n])
      else if n == 98 then strScan rest (i + 2) (buf ++ [8])
      else if n == 102 then strScan rest (i + 2) (buf ++ [12])
      else if n == 110 then strScan rest (i + 2) (buf ++ [10])
      else if n == 114 then strScan rest (i + 2) (buf ++ [13])
      else if n == 116 then strScan rest (i + 2) (buf ++ [9])
      else strScan (n :: rest) (i + 1) (buf ++ [92])
    else if c == 34 then some (i, buf)
    else strScan (n :: rest) (i + 1) (buf ++ [c])

/-- parseAttributeString (attribute.go:200-246); the reader is at the opening quote -/
def pString (src : Bytes) (p : Nat) : Res Val :=
  let p1 := adv src p 1
  match strScan (restLine src p1) 0 [] with
  | some (i, buf) => .ok (.bytes buf) (adv src p1 (i + 1))
  | none => .fail

/-- scanAttributeDecimal (attribute.go:248-258): the digits at `p` -/
def digitsAt (src : Bytes) (p : Nat) : Bytes := (src.drop p).takeWhile isNumeric

/-- attribute.go:263-268: an optional sign -/
def signEnd (src : Bytes) (p : Nat) : Nat :=
  if peekAt src p == 45 || peekAt src p == 43 then adv src p 1 else p
/-- scanAttributeDecimal: the reader behind the digits at `p` -/
def intEnd (src : Bytes) (p : Nat) : Nat := adv src p (digitsAt src p).length
/-- attribute.go:278-282: `.` and more digits -/
def fracEnd (src : Bytes) (p : Nat) : Nat := if peekAt src p == 46 then intEnd src (adv src p 1) else p
def fracDigits (src : Bytes) (p : Nat) : Bytes := if peekAt src p == 46 then digitsAt src (adv src p 1) else []
/-- attribute.go:283-293: `e`/`E`, an optional sign, digits -/
def hasExp (src : Bytes) (p : Nat) : Bool := peekAt src p == 101 || peekAt src p == 69
def expEnd (src : Bytes) (p : Nat) : Nat := if hasExp src p then intEnd src (signEnd src (adv src p 1)) else p
def expPart (src : Bytes) (p : Nat) : Option (Bool × Bytes) :=
  if hasExp src p then some (peekAt src (adv src p 1) == 45, digitsAt src (signEnd src (adv src p 1))) else none

/-- parseAttributeNumber (attribute.go:260-299); `buf.Len() == 0` (273) cannot hold: the guard at 270 saw a digit -/
def pNumber (src : Bytes) (p : Nat) : Res Val :=
  let q0 := signEnd src p
  if !isNumeric (peekAt src q0) then .fail else
  let q1 := intEnd src q0
  let q2 := fracEnd src q1
  match parseFloatBits (digitsAt src q0) (fracDigits src q1) (expPart src q2) with
  | some bits => .ok (.num (if peekAt src p == 45 then bits + 2 ^ 63 else bits)) (expEnd src q2)
  | none => .fail

def bytesTrue : Bytes := [116, 114, 117, 101]
def bytesFalse : Bytes := [102, 97, 108, 115, 101]
def bytesNull : Bytes := [110, 117, 108, 108]

/-- parseAttributeOthers (attribute.go:305-329); `line[0]` on an empty line is an index panic -/
def pOthers (src : Bytes) (p : Nat) : Res Val :=
  match restLine src p with
  | [] => .panic .index
  | c :: rest =>
    if !isNameStart c then .fail else
    let value := (c :: rest).takeWhile isNameChar
    let p' := adv src p value.length
    if value == bytesTrue then .ok (.bool true) p'
    else if value == bytesFalse then .ok (.bool false) p'
    else if value == bytesNull then .ok .null p'
    else .ok (.bytes value) p'

/-- attribute.go:67-77: a `class` attribute is merged into an earlier one (`findUpdate` updates the FIRST attribute
    named class; both values go through the type assertion `.([]byte)`), anything else is appended -/
def mergeClass : List PAttr → PAttr → Except Panic (List PAttr)
  | [], a => .ok [a]
  | (n, v) :: rest, a =>
    if n == nameClass then
      match v, a.2 with
      | .bytes x, .bytes y => .ok ((n, .bytes (x ++ [32] ++ y)) :: rest)
      | _, _ => .error .assert
    else (mergeClass rest a).map ((n, v) :: ·)

def addAttr (acc : List PAttr) (a : PAttr) : Except Panic (List PAttr) :=
  if a.1 == nameClass then mergeClass acc a else .ok (acc ++ [a])

/-! ### the mutually recursive parsers (attribute.go:47-198) -/

mutual
/-- ParseAttributes (attribute.go:47-58, 64-66 for the failure exits) -/
def pAttributes (src : Bytes) : Nat → Nat → Res (List PAttr)
  | 0, _ => .fuel
  | f + 1, p0 =>
    let p := skipWs src p0
    if peekAt src p != 123 then .fail
    else pAttrsLoop src f (adv src p 1) []

/-- the `for` loop of ParseAttributes (attribute.go:57-85) -/
def pAttrsLoop (src : Bytes) : Nat → Nat → List PAttr → Res (List PAttr)
  | 0, _, _ => .fuel
  | f + 1, p, acc =>
    if peekAt src p == 125 then .ok acc (adv src p 1)
    else
      match pAttribute src f p with
      | .ok a p1 =>
        match addAttr acc a with
        | .error k => .panic k
        | .ok acc' =>
          let p2 := skipWs src p1
          let p3 := if peekAt src p2 == 44 then skipWs src (adv src p2 1) else p2
          pAttrsLoop src f p3 acc'
      | .fail => .fail
      | .panic k => .panic k
      | .fuel => .fuel

/-- parseAttribute (attribute.go:88-146) -/
def pAttribute (src : Bytes) : Nat → Nat → Res PAttr
  | 0, _ => .fuel
  | f + 1, p0 =>
    let p := skipWs src p0
    let c := peekAt src p
    if c == 35 || c == 46 then
      let p1 := adv src p 1
      let v := (restLine src p1).takeWhile isIdChar
      .ok (if c == 35 then nameId else nameClass, .bytes v) (adv src p1 v.length)
    else
      match restLine src p with
      | [] => .fail
      | c0 :: rest =>
        if !isNameStart c0 then .fail else
        let name := (c0 :: rest).takeWhile isNameChar
        let p1 := skipWs src (adv src p name.length)
        if peekAt src p1 != 61 then .fail else
        let p2 := skipWs src (adv src p1 1)
        match pValue src f p2 with
        | .ok v p3 => if name == nameClass && !v.isBytes then .fail else .ok (name, v) p3
        | .fail => .fail
        | .panic k => .panic k
        | .fuel => .fuel

/-- parseAttributeValue (attribute.go:148-173) -/
def pValue (src : Bytes) : Nat → Nat → Res Val
  | 0, _ => .fuel
  | f + 1, p0 =>
    let p := skipWs src p0
    let c := peekAt src p
    if c == 255 then .fail
    else if c == 123 then
      match pAttributes src f p with
      | .ok as p' => .ok (.attrs as) p'
      | .fail => .fail
      | .panic k => .panic k
      | .fuel => .fuel
    else if c == 91 then
      match pArrayLoop src f (adv src p 1) true [] with
      | .ok vs p' => .ok (.arr vs) p'
      | .fail => .fail
      | .panic k => .panic k
      | .fuel => .fuel
    else if c == 34 then pString src p
    else if c == 45 || c == 43 || isNumeric c then pNumber src p
    else pOthers src p

/-- the loop of parseAttributeArray (attribute.go:178-198); `first` = `i == 0` -/
def pArrayLoop (src : Bytes) : Nat → Nat → Bool → List Val → Res (List Val)
  | 0, _, _, _ => .fuel
  | f + 1, p, first, acc =>
    let c := peekAt src p
    let comma := !first && c == 44
    let p1 := if comma then adv src p 1 else p
    if c == 93 then
      if !comma then .ok acc (adv src p1 1) else .fail
    else
      match pValue src f (skipWs src p1) with
      | .ok v p2 => pArrayLoop src f (skipWs src p2) false (acc ++ [v])
      | .fail => .fail
      | .panic k => .panic k
      | .fuel => .fuel
end

/-- fuel that is never exhausted (GM.Props.Attribute.parseAttributes_total) -/
def fuelFor (src : Bytes) (p : Nat) : Nat := 5 * (src.length - p) + 8

/-- `parser.ParseAttributes(reader)` for a reader at offset `p` of `src` -/
def parseAttributes (src : Bytes) (p : Nat) : Res (List PAttr) := pAttributes src (fuelFor src p) p

/-- where the reader stands after the call: past the attributes, or restored (attribute.go:52, 64) -/
def posAfter (p : Nat) : Res (List PAttr) → Nat
  | .ok _ p' => p'
  | _ => p

/-! ### ast.BaseNode.SetAttribute and the heading glue -/

/-- ast.go:414-427: replace the value of the first attribute with this name, else append -/
def setAttribute : List PAttr → PAttr → List PAttr
  | [], a => [a]
  | (n, v) :: rest, a => if n == a.1 then (a.1, a.2) :: rest else (n, v) :: setAttribute rest a

/-- `for _, attr := range attrs { node.SetAttribute(attr.Name, attr.Value) }` -/
def setAll (node : List PAttr) (attrs : List PAttr) : List PAttr := attrs.foldl setAttribute node

def hasName (node : List PAttr) (n : Bytes) : Bool := node.any (·.1 == n)

/-- state of the scan of parseLastLineAttributes: the results of the LAST `{` tried -/
structure LastScan where
  ok : Bool := false
  attrs : List PAttr := []
  start : Nat := 0
  stop : Nat := 0

/-- the `for` loop of parseLastLineAttributes (atx_heading.go:226-244) over a fresh reader on `line`;
    note `c == text.EOF` also ends the scan at a real 0xFF byte -/
def lastScan (line : Bytes) : Nat → Nat → LastScan → Except Panic LastScan
  | 0, _, _ => .error .loop
  | f + 1, p, st =>
    let c := peekAt line p
    if c == 255 then .ok st
    else if c == 92 then
      let p1 := adv line p 1
      lastScan line f (if peekAt line p1 == 123 then adv line p1 1 else p1) st
    else if c == 123 then
      match parseAttributes line p with
      | .ok as p' => lastScan line f (adv line p 1) { ok := true, attrs := as, start := p, stop := p' }
      | .fail => lastScan line f (adv line p 1) { ok := false, attrs := [], start := p, stop := p }
      | .panic k => .error k
      | .fuel => .error .loop
    else lastScan line f (adv line p 1) st

/-- parseLastLineAttributes (atx_heading.go:211-251) for a heading whose last line has the value `line`:
    `some (attrs, n)` = the attributes are attached and the line is cut to its first `n` bytes -/
def lastLineAttrs (line : Bytes) : Except Panic (Option (List PAttr × Nat)) :=
  match lastScan line (line.length + 1) 0 {} with
  | .error e => .error e
  | .ok st => if st.ok && isBlank (line.drop st.stop) then .ok (some (st.attrs, st.start)) else .ok none

/-- a heading as far as this package is concerned: level, line segments (offsets into the source), attributes
    (`none` = the Go `nil` slice: SetAttribute was never called) -/
structure Heading where
  level : Nat
  lines : List (Nat × Nat)
  attrs : Option (List PAttr)

def Heading.attrList (h : Heading) : List PAttr := h.attrs.getD []

def Heading.setAll (h : Heading) (as : List PAttr) : Heading :=
  match as with
  | [] => h                                  -- no SetAttribute call: the slice stays nil
  | _ => { h with attrs := some (GM.Attr.setAll h.attrList as) }

/-- the call of parseLastLineAttributes in Close (atx_heading.go:176, setext_headings.go:107) -/
def closeAttrs (src : Bytes) (h : Heading) : Except Panic Heading :=
  match h.lines.getLast? with
  | none => .ok h                                                   -- "empty headings"
  | some (a, b) =>
    match lastLineAttrs (sub src a b) with
    | .error e => .error e
    | .ok none => .ok h
    | .ok (some (as, n)) => .ok { (h.setAll as) with lines := h.lines.dropLast ++ [(a, a + n)] }

/-- generateAutoHeadingID (atx_heading.go:200-209) for the first heading of a document (fresh id table) -/
def closeAutoId (src : Bytes) (h : Heading) : Except Panic Heading :=
  match Ids.generate [] (match h.lines.getLast? with | some (a, b) => sub src a b | none => []) true with
  | some (id, _) => .ok { h with attrs := some (setAttribute h.attrList (nameId, .bytes id)) }
  | none => .error .loop

/-- Close of both heading parsers, the part after the lines are final (atx_heading.go:172-190,
    setext_headings.go:106-120): parseLastLineAttributes unless an `id` is already there (a Setext heading has no
    attributes at this point), then the automatic id unless there is one. -/
def closeHeading (src : Bytes) (attrOn autoId : Bool) (h : Heading) : Except Panic Heading :=
  match (if attrOn && !(hasName h.attrList nameId) then closeAttrs src h else .ok h) with
  | .error e => .error e
  | .ok h1 => if autoId && !(hasName h1.attrList nameId) then closeAutoId src h1 else .ok h1

/-- atx_heading.go:109-126: the scan for ` #…#` (a closing sequence) from `j`; `(closureOpen, closureClose)` -/
def closureScan (line : Bytes) (stop : Nat) : Nat → Nat → Option (Nat × Nat)
  | 0, _ => none
  | f + 1, j =>
    if j < stop then
      let c := line[j]?.getD 0
      if c == 92 && j + 1 < line.length && isPunct (line[j + 1]?.getD 0) then closureScan line stop f (j + 2)
      else if isSpace c && j + 1 < stop && line[j + 1]? == some 35 then
        let k := j + 1 + (((line.drop (j + 1)).take (stop - (j + 1))).takeWhile (· == 35)).length
        some (j + 1, k)
      else closureScan line stop f (j + 1)
    else none

/-- atx_heading.go:142-163: the content line of a heading without (parsed) attributes -/
def atxPlain (line : Bytes) (ls n start stop0 : Nat) : Except Panic (Option Heading) :=
  match LineRec.atxContent line start stop0 with
  | .ok (some (a, b)) => .ok (some { level := n, lines := [(ls + a, ls + b)], attrs := none })
  | .ok none => .ok (some { level := n, lines := [], attrs := none })
  | .error e => .error (if e == "slice" then .slice else .index)

/-- atx_heading.go:105-140: the `Attribute` branch (`### heading ### {#id}`); `none` = `parsed` stays false.
    The reader stands at the start `ls` of the line; `Advance(closureClose)`, ParseAttributes, the rest of the line
    the reader is then in must be blank. -/
def atxAttrs (src line : Bytes) (ls n start stop0 : Nat) : Except Panic (Option Heading) :=
  match closureScan line stop0 (line.length + 1) (start - 1) with
  | some (cOpen, cClose) =>
    if cClose > 0 then
      match parseAttributes src (adv src ls cClose) with
      | .ok as p' =>
        if isBlank (restLine src p') then
          .ok (some (Heading.setAll { level := n, lines := [(ls + start, ls + cOpen)], attrs := none } as))
        else .ok none
      | .fail => .ok none
      | .panic k => .error k
      | .fuel => .error .loop
    else .ok none
  | none => .ok none

/-- atxHeadingParser.Open (atx_heading.go:82-166) with the `Attribute` branch, for a heading on the line starting at
    offset `ls` of `src` (reader at the line start, no padding, `pos` = BlockOffset). `none` = not a heading. -/
def atxOpen (src : Bytes) (ls pos : Nat) (attrOn : Bool) : Except Panic (Option Heading) :=
  let line := restLine src ls
  let n := ((line.drop pos).takeWhile (· == 35)).length
  let i := pos + n
  if n == 0 || n > 6 then .ok none
  else if i == line.length then .ok (some { level := n, lines := [], attrs := none })
  else
    let l := trimLeftSpaceLength (line.drop i)
    if l == 0 then .ok none
    else
      let start := if i + l ≥ line.length then line.length - 1 else i + l
      let stop0 := line.length - trimRightSpaceLength line
      if !attrOn then atxPlain line ls n start stop0
      else
        match atxAttrs src line ls n start stop0 with
        | .error e => .error e
        | .ok (some h) => .ok (some h)
        | .ok none => atxPlain line ls n start stop0

/-- the first block of a document whose first line is an ATX heading line (up to 3 leading spaces), as the parser
    configured with WithAttribute (and WithAutoHeadingID) builds it -/
def atxHeading (src : Bytes) (attrOn autoId : Bool) : Except Panic (Option Heading) :=
  match atxOpen src 0 ((restLine src 0).takeWhile (· == 32)).length attrOn with
  | .error e => .error e
  | .ok none => .ok none
  | .ok (some h) =>
    match closeHeading src attrOn autoId h with
    | .error e => .error e
    | .ok h' => .ok (some h')

/-! ### into the tree model -/

/-- how the renderer sees a value: `[]byte` as such, every other dynamic type as an empty value -/
def toTreeAttr (a : PAttr) : Attr :=
  { name := a.1, value := match a.2 with | .bytes b => some b | _ => none }

end GM.Attr
