/-
  GM.Model.ConvertX — `goldmark.New(goldmark.WithExtensions(…), goldmark.WithRendererOptions(…)).Convert(source, w)` for the
  member sets of GFM minus Linkify: extension.Strikethrough, extension.TaskList, extension.Table, each on or off (`XCfg`),
  composed like GM.Convert.convertCore (GM.Model.Convert) from the phase models:

    block phase      GM.Blocks.runT over DefaultParagraphTransformers (link references, priority 100) followed — with
                     `table` — by the table paragraph transformer (priority 200; extension/table.go:87-98 registers it)
    inline phase     GM.Inl.lineLoopX over the trigger table parser.go:778-793 builds from DefaultInlineParsers plus
                       `~`  strikethroughParser (priority 500, strikethrough.go:108-111): the only parser of that entry
                       `[`  taskCheckBoxParser (priority 0, tasklist.go:109-112): in FRONT of the link parser (200)
                     and — with `strikethrough` — ProcessDelimiters dispatching OnMatch on the delimiter's processor, both
                     at the end of the block (parser.go:1264) and inside the link parser (GM.Model.ExtStrike)
    renderer         GM.render with the node renderers of the members registered (`Exts`), all at default html.Config +
                     the global renderer options (renderer.go:137-148 propagates them to every SetOptioner)

  With every member off each definition reduces to the one of GM.Model.Convert (GM.Props.ConvertX.convertx_off_is_core).
  Run-time checks (`guard`) and outcomes (`GM.Convert.Err`) are those of GM.Model.Convert. Core Lean only.
-/
import GM.Model.Convert
import GM.Model.ExtStrike
import GM.Model.ExtTask
import GM.Model.ExtTableX

namespace GM.ConvertX
open GM GM.Text GM.Convert

/-- which of the three extensions are passed to `goldmark.WithExtensions` -/
structure XCfg where
  strikethrough : Bool := false
  tasklist : Bool := false
  table : Bool := false
  deriving Repr, DecidableEq

/-- the node renderers the members register -/
def XCfg.exts (c : XCfg) : Exts := { strike := c.strikethrough, task := c.tasklist, table := c.table }

/-- the node renderers' state: default-constructed renderers of the core and of the members + the global options -/
def rcfgX (c : XCfg) (o : ROpts) : RCfg :=
  mkRCfg { unsafe_ := o.unsafe_, xhtml := o.xhtml, hardWraps := o.hardWraps } c.exts

/-! ### phase 1 -/

/-- DefaultParagraphTransformers (priority 100) then, with Table, NewTableParagraphTransformer (priority 200) -/
def paragraphTransformersX (c : XCfg) (guard : Bool) (src : Bytes) : List GM.Blocks.PT :=
  paragraphTransformers guard ++ (if c.table then [GM.TableX.transformPT src] else [])

def blockPhaseX (c : XCfg) (guard : Bool) (src : Bytes) : Except Panic GM.Blocks.St :=
  GM.Blocks.runT (paragraphTransformersX c guard src) src

/-! ### phase 2 -/

/-- ProcessDelimiters of the configuration -/
def pdX (c : XCfg) : GM.Inl.PD :=
  if c.strikethrough then GM.Inl.processDelimitersG true else GM.Inl.processDelimiters

/-- the link parser of the configuration: the default one, over `pdX` -/
def linkX (c : XCfg) : GM.Inl.XIp :=
  if c.strikethrough then .ext { triggers := [33, 91, 93], parse := GM.Inl.parseLinkG (pdX c) } else .builtin .link

/-- `p.inlineParsers[b]` (parser.go:778-793: per trigger byte, sorted by priority) for a block whose task-list
    precondition is `inItem` -/
def inlineTbl (c : XCfg) (inItem : Bool) (b : UInt8) : List GM.Inl.XIp :=
  if b == 126 then (if c.strikethrough then [.ext GM.Inl.strikeParser] else [])
  else if b == 91 then (if c.tasklist then [.ext (GM.Inl.taskParser inItem)] else []) ++ [linkX c]
  else if b == 33 || b == 93 then [linkX c]
  else GM.Inl.baseTbl b

/-- parseBlock (parser.go:1152-1269) over the table and ProcessDelimiters of the configuration -/
def parseBlockG (env : GM.Inl.Env) (tbl : UInt8 → List GM.Inl.XIp) (pd : GM.Inl.PD) (src : Bytes) (segs : List Segment) :
    Except Panic (List GM.Inl.Node) := do
  let rd ← BlockReader.new src segs
  let st ← GM.Inl.lineLoopX env tbl (GM.Inl.blockFuel src segs) false { rd := rd }
  let kids ← pd .nil st.kids
  pure (GM.Inl.closeLabelsL kids)

/-- the lines of a block as the inline phase reads them (a block kind of the block model, or a table cell) -/
def inlineLines (c : XCfg) (guard : Bool) (env : GM.Inl.Env) (src : Bytes) (inItem : Bool) (lines : List Segment) :
    Except Err (List GM.Inl.Node) :=
  if lines.isEmpty then .ok []                                  -- `block.Reset(parent.Lines())`; PeekLine is nil: `break`
  else if guard && !GM.LinkRef.wf0B src lines then .error .linesNotWF0
  else liftErr .inlines (parseBlockG env (inlineTbl c inItem) (pdX c) src lines)

/-- `parseBlock(blockReader, node, pc)` for one block: its inline children (as GM.Convert.inlinePhase) -/
def inlinePhaseX (c : XCfg) (guard : Bool) (env : GM.Inl.Env) (src : Bytes) (inItem : Bool) (n : GM.Blocks.Node) :
    Except Err (List GM.Inl.Node) :=
  if isRawKind n.kind then .ok []
  else if c.table && GM.TableX.isRowNode src n then .ok []            -- a TableHeader / TableRow has no lines (GM.Model.ExtTableX)
  else if c.table && guard && GM.TableX.isCellNode src n && n.lines.all (fun s => s.start == s.stop && s.padding == 0) then
    .ok []                                                        -- an empty cell: PeekLine is nil at once (no WF0 line to check)
  else inlineLines c guard env src inItem n.lines

mutual
/-- an inline node as the renderer reads it; decodes the representations of Strikethrough / TaskCheckBox
    (GM.Model.ExtStrike, GM.Model.ExtTask) when the member that builds them is on -/
def inlineTreeX (c : XCfg) (src : Bytes) : GM.Inl.Node → Except Panic GM.Node
  | .text seg soft hard raw => do
    let v ← seg.value src
    pure (.mk (.text v soft hard raw false) none [])
  | .codeSpan kids => do pure (.mk .codeSpan none (← inlineTreesX c src kids))
  | .emphasis lv kids => do
    let cs ← inlineTreesX c src kids
    if c.strikethrough && (lv == -3 || lv == -4) then pure (.mk .strikethrough none cs)
    else if c.tasklist && lv == -1 then pure (.mk (.taskCheckBox false) none cs)
    else if c.tasklist && lv == -2 then pure (.mk (.taskCheckBox true) none cs)
    else pure (.mk (.emphasis lv.toNat) none cs)
  | .link im d t kids => do
    let cs ← inlineTreesX c src kids
    pure (.mk (if im then .image d t else .link d t) none cs)
  | .autoLink email seg => do
    let v ← seg.value src
    pure (.mk (.autoLink email v v) none [])
  | .rawHTML segs => do pure (.mk (.rawHTML (← segValues src segs)) none [])
  | .delim _ _ => pure (.mk .other none [])
  | .label _ _ _ => pure (.mk .other none [])
def inlineTreesX (c : XCfg) (src : Bytes) : List GM.Inl.Node → Except Panic (List GM.Node)
  | [] => pure []
  | n :: rest => do
    let t ← inlineTreeX c src n
    let ts ← inlineTreesX c src rest
    pure (t :: ts)
end

/-- the renderer's kind of a block node: the block kinds of GM.Convert.blockKind; with Table the four table kinds
    (represented in the block store as GM.TableX describes) -/
def blockKindX (c : XCfg) (src : Bytes) (n : GM.Blocks.Node) : Except Panic GM.Kind :=
  if c.table then
    match GM.TableX.kindOf src n with
    | some k => pure k
    | none => blockKind src n
  else blockKind src n

mutual
/-- one block with its block children followed by its inline children; `inItem` = the node is the first child of a
    ListItem (what taskCheckBoxParser.Parse asks of `parent`); `escs` = the escaped-pipe positions of the document -/
def docTreeX (c : XCfg) (guard : Bool) (env : GM.Inl.Env) (src : Bytes) (escs : List Int) (inItem : Bool) :
    GM.Blocks.Tree → Except Err GM.Node
  | .node n cs => do
    let bs ← docTreesX c guard env src escs (n.kind == .listItem) true cs
    let kids ← inlinePhaseX c guard env src inItem n
    let kids := if c.table && GM.TableX.isCellNode src n then GM.TableX.escNodes escs kids else kids   -- tableASTTransformer
    let is ← liftErr .value (inlineTreesX c src kids)
    let k ← liftErr .value (blockKindX c src n)
    pure (.mk k none (bs ++ is))
def docTreesX (c : XCfg) (guard : Bool) (env : GM.Inl.Env) (src : Bytes) (escs : List Int) (parentIsItem first : Bool) :
    List GM.Blocks.Tree → Except Err (List GM.Node)
  | [] => pure []
  | t :: rest => do
    let x ← docTreeX c guard env src escs (parentIsItem && first) t
    let xs ← docTreesX c guard env src escs parentIsItem false rest
    pure (x :: xs)
end

/-- parser.Parse with the members' parsers and transformers: the document as the renderer sees it -/
def parseDocX (c : XCfg) (guard : Bool) (uc : List (Nat × (Bool × Bool))) (src : Bytes) : Except Err GM.Node := do
  let st ← liftErr .blocks (blockPhaseX c guard src)
  let env : GM.Inl.Env := { refs := st.pc.refs, uc := uc }
  let t := GM.Blocks.treeOf st.nodes st.nodes.length 0
  -- the AST transformers: with Table, tableASTTransformer (priority 0), applied where the cells' inline children are
  -- built (`escs` = the parse context list `escapedPipeCellListKey` the block phase leaves)
  docTreeX c guard env src (if c.table then GM.TableX.escOfTree src t else []) false t

/-! ### C17 on the tree the renderer receives -/

def isCellKind : GM.Kind → Bool
  | .tableCell _ => true
  | _ => false

/-- a child of a Table node: a TableHeader (`hdr`) / TableRow with exactly `cols` children, all of them TableCells -/
def rowOK (hdr : Bool) (cols : Nat) (n : GM.Node) : Bool :=
  (n.kind == if hdr then GM.Kind.tableHeader else GM.Kind.tableRow) && n.children.length == cols &&
    n.children.all (fun x => isCellKind x.kind)

/-- a Table node's children: exactly one header row, first; at least one column; every body row as long as the header -/
def tableOK : List GM.Node → Bool
  | [] => false
  | h :: rows => decide (1 ≤ h.children.length) && rowOK true h.children.length h && rows.all (rowOK false h.children.length)

mutual
/-- every Table node of the tree is rectangular -/
def rectB : GM.Node → Bool
  | .mk k _ cs => (if k == GM.Kind.table then tableOK cs else true) && rectL cs
def rectL : List GM.Node → Bool
  | [] => true
  | n :: rest => rectB n && rectL rest
end

/-- renderer.Render on the parsed document -/
def renderDocX (c : XCfg) (o : ROpts) (t : GM.Node) : Except Err Bytes :=
  match renderPanics (rcfgX c o) t with
  | some k => .error (.render k)
  | none => .ok (render (rcfgX c o) t)

def convertXWith (c : XCfg) (guard : Bool) (uc : List (Nat × (Bool × Bool))) (o : ROpts) (src : Bytes) :
    Except Err Bytes := do
  let t ← parseDocX c guard uc src
  renderDocX c o t

/-- the model of `goldmark.New(goldmark.WithExtensions(members of c), goldmark.WithRendererOptions(o)).Convert` -/
def convertX (c : XCfg) (uc : List (Nat × (Bool × Bool))) (o : ROpts) (src : Bytes) : Except Err Bytes :=
  convertXWith c true uc o src

/-- the same composition without the run-time checks -/
def convertXUnguarded (c : XCfg) (uc : List (Nat × (Bool × Bool))) (o : ROpts) (src : Bytes) : Except Err Bytes :=
  convertXWith c false uc o src

end GM.ConvertX
