/-
  GM.Model.ExtDecline — the EARLY-EXIT (decline) paths of the built-in extensions, transcribed branch by branch
  as far as the decision "return nil without effect" needs (C11):

    linkifyParse          extension/linkify.go:169-296   (*linkifyParser).Parse, default LinkifyConfig
                          (AllowedProtocols nil, EmailRegexp nil). The two URL regexps are NOT modelled: a line that
                          passes one of the `bytes.HasPrefix` guards (`http:` `https:` `ftp:` `www.`) is answered
                          `.regexp`. Everything else — the e-mail path through util.FindEmailIndex, the trailing
                          punctuation loop, the flush of the stripped first byte — is complete.
    footnoteParse         extension/footnote.go:132-190  (*footnoteParser).Parse
    footnoteOpen          extension/footnote.go:36-71    (*footnoteBlockParser).Open (padding 0)
    footnoteTransformNoList  extension/footnote.go:202-218 the AST transformer's early return
    defListOpen           extension/definition_list.go:29-75
    defDescOpen           extension/definition_list.go:116-143 (decision only)
    taskParse             extension/tasklist.go:34-59 (regexp `^\[([\sxX])\]\s*` hand-matched)
    typoParse             extension/typographer.go:166-330 (everything but the two quote characters, whose
                          treatment needs ScanDelimiter and Unicode classes: `.quote`)
    softLineBreak         renderer/html/html.go:119-174 with the Unicode predicates as parameters (`RuneClass`)
    softBreakWritten      renderer/html/html.go:673-683 (the decision whether `\n` is written)
    blockTable            parser/parser.go:749-771, 843-850, 949-955 (which block parsers see a line)
  Go panics are explicit. Core Lean only.
-/
import GM.Model.InlinesParsers
import GM.Model.Util

namespace GM.Ext
open GM

/-- the answer of an inline parser's `Parse` as the loop can observe it -/
inductive IRes
  | nil (moved : Nat)                               -- returned nil; the reader was advanced by `moved` bytes before
                                                    -- (the loop puts it back); parent and context untouched
  | node (kind : String) (adv : Nat) (flushed : Bool) -- returned a node after `Advance(adv)`; `flushed`: one byte of
                                                    -- text was merged/appended to the parent before
  | regexp                                          -- depends on a regexp that is not modelled
  | quote                                           -- typographer quote handling, not modelled
  | panic (kind : String)
deriving DecidableEq, Repr

def IRes.str : IRes → String
  | .nil m => s!"nil {m}"
  | .node k a f => s!"node {k} {a} {if f then 1 else 0}"
  | .regexp => "regexp"
  | .quote => "quote"
  | .panic k => s!"panic:{k}"

/-! ### Linkify -/

def protoHTTP : Bytes := [104, 116, 116, 112, 58]           -- "http:"
def protoHTTPS : Bytes := [104, 116, 116, 112, 115, 58]     -- "https:"
def protoFTP : Bytes := [102, 116, 112, 58]                 -- "ftp:"
def domainWWW : Bytes := [119, 119, 119, 46]                -- "www."

/-- linkify.go:178: the bytes skipped when the parser is not at a line head — literally its trigger set -/
def linkifyStrip (c : UInt8) : Bool := c == 32 || c == 42 || c == 95 || c == 126 || c == 40

/-- the `bytes.HasPrefix` guards in front of the two URL regexps (linkify.go:187-203) -/
def linkifyGuard (line : Bytes) : Bool :=
  protoHTTP.isPrefixOf line || protoHTTPS.isPrefixOf line || protoFTP.isPrefixOf line || domainWWW.isPrefixOf line

/-- bytes.IndexByte -/
def indexByte (c : UInt8) : Bytes → Nat → Option Nat
  | [], _ => none
  | d :: rest, i => if d == c then some i else indexByte c rest (i + 1)

/-- linkify.go:271-279: walk left from `i` over `? ! . , : * _ ~` while `i > 0` -/
def linkifyTrailing (line : Bytes) : Nat → Nat
  | 0 => 0
  | i + 1 =>
    let c := line.getD (i + 1) 0
    if c == 63 || c == 33 || c == 46 || c == 44 || c == 58 || c == 42 || c == 95 || c == 126 then linkifyTrailing line i
    else i + 1

/-- linkify.go:237-266 after `stop = util.FindEmailIndex(line) >= 0`: the e-mail candidate `line[0:stop]` -/
def linkifyEmail (strip : Bool) (line : Bytes) (stop : Nat) : IRes :=
  match indexByte 64 line 0 with
  | none => .panic "slice"                                            -- `line[-1:stop-1]`
  | some at_ =>
    if at_ > stop - 1 then .panic "slice"
    else if (indexByte 46 ((line.drop at_).take (stop - 1 - at_)) 0).isNone then .nil 0
    else
      let m1 := if line.getD (stop - 1) 0 == 46 then stop - 1 else stop
      if m1 < line.length && (line.getD m1 0 == 45 || line.getD m1 0 == 95) then .nil 0
      else
        let i := linkifyTrailing line (m1 - 1) + 1
        .node "email" ((if strip then 1 else 0) + i) strip

/-- linkify.go:184-296 on the line behind the stripped byte -/
def linkifyBody (strip : Bool) (line : Bytes) : IRes :=
  if linkifyGuard line then .regexp
  else
    -- m == nil
    if (match line with | d :: _ => isPunct d | [] => false) then .nil 0
    else if Inl.findEmailIndex line < 0 then .nil 0
    else linkifyEmail strip line (Inl.findEmailIndex line).toNat

/-- (*linkifyParser).Parse on the peeked line `line0` (never empty when the loop calls it) -/
def linkifyParse (inLinkLabel : Bool) (line0 : Bytes) : IRes :=
  if inLinkLabel then .nil 0 else
  match line0 with
  | [] => .panic "index"                                              -- `line[0]`
  | c :: rest => if linkifyStrip c then linkifyBody true rest else linkifyBody false (c :: rest)

/-! ### Footnote -/

/-- util.FindClosure(bs, '[', ']', false, false) (util.go:286-333 with codeSpan = allowNesting = false):
    a backslash followed by punctuation skips both bytes; the first `]` closes; a `[` fails -/
def findClosureBr : Bytes → Nat → Option Nat
  | [], _ => none
  | [c], i => if c == 93 then some i else none
  | c :: d :: rest, i =>
    if c == 92 && isPunct d then findClosureBr rest (i + 2)
    else if c == 93 then some i
    else if c == 91 then none
    else findClosureBr (d :: rest) (i + 1)

/-- (*footnoteParser).Parse. `refs` = the `Ref`s of the footnote definitions collected so far
    (`none`: no FootnoteList in the context, i.e. no footnote definition has been closed yet). -/
def footnoteParse (refs : Option (List Bytes)) (line : Bytes) : IRes :=
  let pos := if line.head? == some 33 then 2 else 1
  if pos ≥ line.length || line.getD pos 0 != 94 then .nil 0
  else
    let pos := pos + 1
    if pos ≥ line.length then .nil 0
    else
      match findClosureBr (line.drop pos) 0 with
      | none => .nil 0
      | some closure =>
        let closes := pos + closure
        let value := (line.drop pos).take closure
        match refs with
        | none => .nil (closes + 1)
        | some rs =>
          if rs.contains value then .node "footnoteLink" (closes + 1) (line.head? == some 33)
          else .nil (closes + 1)

/-- the answer of a block parser's `Open` -/
inductive BRes
  | nil                                             -- (nil, NoChildren); reader, parent, context untouched
  | node (kind : String) (state : Nat) (adv : Nat)
  | panic (kind : String)
deriving DecidableEq, Repr

def BRes.str : BRes → String
  | .nil => "nil"
  | .node k s a => s!"node {k} {s} {a}"
  | .panic k => s!"panic:{k}"

def stNoChildren : Nat := 16       -- parser.NoChildren  (1 << 4)
def stHasChildren : Nat := 8       -- parser.HasChildren (1 << 3)
def stRequireParagraph : Nat := 32 -- parser.RequireParagraph (1 << 5)

/-- (*footnoteBlockParser).Open on the peeked line with `pc.BlockOffset() = pos` (segment padding 0) -/
def footnoteOpen (line : Bytes) (pos : Int) : BRes :=
  if pos < 0 then .nil else
  let pos := pos.toNat
  match line[pos]? with
  | none => .panic "index"
  | some c =>
    if c != 91 then .nil else
    let pos := pos + 1
    if pos > line.length - 1 || line.getD pos 0 != 94 then .nil
    else
      match findClosureBr (line.drop (pos + 1)) 0 with
      | none => .nil
      | some closure =>
        let closes := pos + 1 + closure
        let next := closes + 1
        if next ≥ line.length || line.getD next 0 != 58 then .nil
        else if isBlank ((line.drop (pos + 1)).take closure) then .nil
        else if next + 1 ≥ line.length then .node "footnote" stNoChildren (next + 1)
        else .node "footnote" stHasChildren (next + 1)

/-- (*footnoteASTTransformer).Transform when the context holds no FootnoteList: the document is returned as it
    is (the two context keys are reset to nil, which they already are) -/
def footnoteTransformNoList {Doc : Type} (d : Doc) : Doc := d

/-- (*tableASTTransformer).Transform (extension/table.go:290-294) when the context holds no escaped-pipe cell list
    (it is set by parseRow only, i.e. only once a table has been made): immediate return -/
def tableTransformNoList {Doc : Type} (d : Doc) : Doc := d

/-! ### DefinitionList -/

/-- what `Open` looks at around it -/
inductive LastChild
  | none            -- parent has no children
  | paragraph (prevIsDefList : Bool)
  | defList
  | other
deriving DecidableEq, Repr

/-- (*definitionListParser).Open -/
def defListOpen (parentIsDefList : Bool) (line : Bytes) (pos indent : Int) (last : LastChild) : BRes :=
  if parentIsDefList then .nil
  else if pos < 0 then .nil
  else
    match line[pos.toNat]? with
    | none => .panic "index"
    | some c =>
      if c != 58 || indent != 0 then .nil
      else
        let w := (indentWidth (line.drop (pos.toNat + 1)) (pos.toNat + 1)).1
        if w < 1 then .nil
        else
          match last with
          | .paragraph true => .node "existing" stHasChildren 0
          | .paragraph false => .node "new" (stHasChildren + stRequireParagraph) 0
          | .defList => .node "existing" stHasChildren 0
          | _ => .nil

/-- (*definitionDescriptionParser).Open: the decision -/
def defDescOpen (parentIsDefList : Bool) (line : Bytes) (pos indent : Int) : BRes :=
  if pos < 0 then .nil
  else
    match line[pos.toNat]? with
    | none => .panic "index"
    | some c =>
      if c != 58 || indent != 0 then .nil
      else if !parentIsDefList then .nil
      else .node "description" stHasChildren 0

/-! ### TaskList -/

/-- `\s` of Go's regexp: [\t\n\f\r ] -/
def reSpace (c : UInt8) : Bool := c == 9 || c == 10 || c == 12 || c == 13 || c == 32

/-- (*taskCheckBoxParser).Parse. `inItem` = the parent is the first child of a ListItem and has no children yet -/
def taskParse (inItem : Bool) (line : Bytes) : IRes :=
  if !inItem then .nil 0
  else
    match line with
    | 91 :: v :: 93 :: rest =>
      if reSpace v || v == 120 || v == 88 then
        .node (if v == 120 || v == 88 then "checked" else "unchecked") (3 + (rest.takeWhile reSpace).length) false
      else .nil 0
    | _ => .nil 0

/-! ### Typographer (default substitutions: every entry non-nil) -/

def typoParse (line : Bytes) : IRes :=
  match line with
  | [] => .panic "index"
  | c :: _ =>
    let l1 := line.getD 1 0
    let l2 := line.getD 2 0
    if line.length > 2 && c == 45 && l1 == 45 && l2 == 45 then .node "emdash" 3 false
    else if line.length > 2 && c == 46 then (if l1 == 46 && l2 == 46 then .node "ellipsis" 3 false else .nil 0)
    else if line.length > 1 && c == 60 then (if l1 == 60 then .node "laquo" 2 false else .nil 0)
    else if line.length > 1 && c == 62 then (if l1 == 62 then .node "raquo" 2 false else .nil 0)
    else if line.length > 1 && c == 45 && l1 == 45 then .node "endash" 2 false
    else if c == 39 || c == 34 then .quote
    else .nil 0

/-! ### CJK: East Asian line breaks -/

/-- the Unicode predicates `softLineBreak` reads, as functions of the code point -/
structure RuneClass where
  wide : Nat → Bool               -- util.IsEastAsianWideRune
  fwh : Nat → Bool                -- util.EastAsianWidth ∈ {"F", "W", "H"}
  hangul : Nat → Bool             -- unicode.Is(unicode.Hangul, r)
  spaceDiscarding : Nat → Bool    -- util.IsSpaceDiscardingUnicodeRune
  punct : Nat → Bool              -- unicode.IsPunct

/-- eastAsianLineBreaksCSS3DraftSoftLineBreak (html.go:131-174) -/
def css3SoftLineBreak (U : RuneClass) (a b : Nat) : Bool :=
  if a == 0x200B || b == 0x200B then false
  else if U.fwh a && U.fwh b then U.hangul a || U.hangul b
  else if U.spaceDiscarding a || (U.punct a && a > 127) || a == 0x3000 ||
          U.spaceDiscarding b || (U.punct b && b > 127) || b == 0x3000 then false
  else true

/-- EastAsianLineBreaks.softLineBreak (html.go:119-129): style 0 none, 1 simple, 2 css3draft -/
def softLineBreak (U : RuneClass) (style : Nat) (a b : Nat) : Bool :=
  match style with
  | 1 => !(U.wide a && U.wide b)
  | 2 => css3SoftLineBreak U a b
  | _ => false

/-- html.go:673-683: is the `\n` of a soft line break written? `valueEmpty` = the Text's value is empty,
    `next` = the first rune of the text that follows (none when there is none), `last` = the value's last rune -/
def softBreakWritten (U : RuneClass) (style : Nat) (valueEmpty : Bool) (last : Nat) (next : Option Nat) : Bool :=
  if style != 0 && !valueEmpty then
    match next with
    | none => true
    | some b => softLineBreak U style last b
  else true

/-! ### the block-parser table -/

structure BlockP where
  id : Nat
  triggers : Option Bytes      -- `Trigger()`; none = nil (a "free" parser)
deriving DecidableEq, Repr

/-- `p.blockParsers[c]` after initialisation (parser.go:749-771 in sorted order, then :845-849 the free parsers are
    appended to every non-nil entry); `none` = nil -/
def blockTable (ps : List BlockP) (c : UInt8) : Option (List BlockP) :=
  let trig := ps.flatMap fun p => match p.triggers with
    | some t => (t.filter (· == c)).map fun _ => p
    | none => []
  let free := ps.filter fun p => p.triggers.isNone
  if trig.isEmpty then none else some (trig ++ free)

/-- parser.go:949-955: the parsers tried on a line whose first non-space byte is `c` -/
def blockCandidates (ps : List BlockP) (c : UInt8) : List BlockP :=
  match blockTable ps c with
  | some l => l
  | none => ps.filter fun p => p.triggers.isNone

end GM.Ext
