/-
  GM.Model.InlinesLoopX — the concrete inline phase (GM.Model.InlinesLoop: parseBlock with the default inline
  parsers plugged in) with an OPEN trigger table: `p.inlineParsers[c]` is a parameter `tbl : UInt8 → List XIp`
  whose entries are default parsers or additional parsers given by their `Parse` as a state transformer over the
  same state (block reader, parent's children, context lists). Every definition is the one of InlinesLoop with
  `parsersFor` replaced by `tbl`; `lineLoopX … baseTbl = lineLoop` (GM.Proof.InlinesLoopX).
  Used to state "a parser none of whose trigger bytes occurs in the source changes nothing" (C11) on the concrete
  loop. Core Lean only.
-/
import GM.Model.InlinesLoop

namespace GM.Inl
open GM GM.Text

/-- an additional inline parser: `Trigger()` and `Parse` (it may do anything to reader, children, context) -/
structure XParser where
  triggers : Bytes
  parse : Env → St → PRes

inductive XIp
  | builtin (ip : Ip)
  | ext (x : XParser)

def XIp.parse (env : Env) : XIp → St → PRes
  | .builtin ip, st => ip.parse env st
  | .ext x, st => x.parse env st

/-- parser.go:1213-1219 (as Inl.tryParsers) -/
def tryParsersX (env : Env) (savedLine : Int) (savedPosition : Segment) : List XIp → St → PRes
  | [], st => pure (none, st)
  | ip :: ips, st => do
    let (node, st) ← ip.parse env st
    match node with
    | some n => pure (some n, st)
    | none =>
      let rd ← st.rd.setPosition savedLine savedPosition
      tryParsersX env savedLine savedPosition ips { st with rd := rd }

/-- parser.go:1200-1221 (as Inl.trigger) -/
def triggerX (env : Env) (ips : List XIp) (i : Nat) (s : Scan) : Except Panic (Sum St Scan) := do
  let rd ← s.st.rd.advance s.n
  let saved := rd.position
  let ks ←
    (if i != 0 then (s.sp.between saved.2).map (fun seg => (mergeOrAppend s.st.kids seg, saved.2))
     else pure (s.st.kids, s.sp))
  let r ← tryParsersX env saved.1 saved.2 ips { s.st with rd := rd, kids := ks.1 }
  match r.1 with
  | some nd => pure (.inl { r.2 with kids := r.2.kids ++ [nd] })
  | none => pure (.inr { s with st := r.2, n := 0, sp := ks.2 })

/-- the byte loop parser.go:1192-1240 (as Inl.scan) over the table `tbl` -/
def scanX (env : Env) (tbl : UInt8 → List XIp) : Bytes → Nat → Scan → Except Panic ScanRes
  | [], _, s => pure (.eol s)
  | c :: cs, i, s =>
    if c == 10 then pure (.eol s)
    else if isTrigger env c i s.escaped && !(tbl (parserChar c i)).isEmpty then
      match triggerX env (tbl (parserChar c i)) i s with
      | .ok (.inl st) => pure (.hit st s.escaped)
      | .ok (.inr s') => scanX env tbl cs (i + 1) (bump c s')
      | .error e => .error e
    else scanX env tbl cs (i + 1) (bump c s)

/-- the `for { retry: … }` loop (as Inl.lineLoop) -/
def lineLoopX (env : Env) (tbl : UInt8 → List XIp) : Nat → Bool → St → Except Panic St
  | 0, _, _ => .error .loop
  | fuel + 1, escaped, st => do
    let pl ← st.rd.peekLine
    let st := { st with rd := pl.2 }
    match pl.1.1 with
    | none => pure st
    | some line =>
      if line.isEmpty then throw .index
      else do
        let cl := classify line
        let p := st.rd.position
        let r ← scanX env tbl (line.take cl.1) 0 { st := st, n := 0, sp := p.2, escaped := escaped }
        match r with
        | .hit st escaped => lineLoopX env tbl fuel escaped st
        | .eol s => do
          let st ← endOfLine cl.2 p.1 s
          lineLoopX env tbl fuel false st

/-- parseBlock over the table `tbl` -/
def parseBlockX (env : Env) (tbl : UInt8 → List XIp) (src : Bytes) (segs : List Segment) : Except Panic (List Node) := do
  let rd ← BlockReader.new src segs
  let st ← lineLoopX env tbl (blockFuel src segs) false { rd := rd }
  let kids ← processDelimiters .nil st.kids
  pure (closeLabelsL kids)

/-- the table of parser.DefaultInlineParsers() -/
def baseTbl (c : UInt8) : List XIp := (parsersFor c).map .builtin

/-- `addInlineParser` for one more parser: in the entry of each of its trigger bytes (once per occurrence in
    `Trigger()`), at the place `pos c` its priority gives it among the parsers already there -/
def insertTbl (x : XParser) (pos : UInt8 → Nat) (tbl : UInt8 → List XIp) (c : UInt8) : List XIp :=
  (tbl c).take (pos c) ++ (x.triggers.filter (· == c)).map (fun _ => .ext x) ++ (tbl c).drop (pos c)

end GM.Inl
