/-
  GM.Model.Reader — text/reader.go: `reader` (98-276), `blockReader` (285-498) and the helpers written
  against the Reader interface (500-665), as state machines with every cached field. Core Lean only.

  Not modelled: Match / FindSubMatch (regexp), Source(), NewBlockReader with a nil *Segments.
  Simple index loops whose only effects are a scan are given in closed form (each one says which lines
  it stands for and where it panics); loops that call other methods are recursions on the loop counter;
  the three loops without an evident bound (SkipBlankLines, SkipSpaces, FindClosure) take fuel and
  answer `Panic.loop` when it runs out (`reader_helpers_defined` in GM.Props.C18 shows it does not for the
  source reader; for the block reader this is checked by the Lean-defined oracle of the harness).
-/
import GM.Model.Segment

namespace GM.Text
open GM

/-! ### scans shared by both readers -/

/-- length of the first line of `l`, its `'\n'` included -/
def lineLen : Bytes → Nat
  | [] => 0
  | c :: cs => if c == 10 then 1 else 1 + lineLen cs

/-- reader.go:231-238: the `Stop` that AdvanceLine computes for a line starting at `p` -/
def lineEnd (src : Bytes) (p : Nat) : Nat :=
  if p ≤ src.length then p + lineLen (src.drop p) else src.length

/-- reader.go:253-255: walk `head` back to the byte after the previous `'\n'` (for 0 < head ≤ len) -/
def lineStart (src : Bytes) : Nat → Nat
  | 0 => 0
  | p + 1 => if src[p]? == some 10 then p + 1 else lineStart src p

/-- reader.go:164-171 / 394-401: the tab-expanded width of a run of bytes starting in column `v` -/
def colFrom : Bytes → Nat → Nat
  | [], v => v
  | c :: cs, v => colFrom cs (if c == 9 then v + tabWidth v else v + 1)

/-- the LineOffset loop `for i := head; i < start; i++ { … source[i] … }` including its index panic -/
def colLoop (src : Bytes) (head start : Int) : Except Panic Nat :=
  if head ≥ start then .ok 0
  else if head < 0 ∨ start > src.length then .error .index
  else .ok (colFrom (sub src head.toNat start.toNat) 0)

/-- scan back from index `k-1` to 0 for a byte with `utf8.RuneStart` -/
def runeStartBack (src : Bytes) : Nat → Option Nat
  | 0 => none
  | k + 1 =>
    match src[k]? with
    | some b => if runeStart b then some k else runeStartBack src k
    | none => runeStartBack src k

/-! ### the source reader (reader.go:98-276) -/

structure Reader where
  source : Bytes
  line : Int
  peekedLine : Option Bytes      -- `nil` = none
  pos : Segment
  head : Int
  lineOffset : Int
  deriving Repr

namespace Reader

def sourceLength (r : Reader) : Int := r.source.length

/-- reader.go:223-241 -/
def advanceLine (r : Reader) : Reader :=
  let start := r.pos.stop
  let r := { r with lineOffset := -1, peekedLine := none, pos := { r.pos with start := start }, head := start }
  if start < 0 then r
  else
    { r with pos := { start := start, stop := lineEnd r.source start.toNat, padding := 0,
                      forceNewline := r.pos.forceNewline },
             line := r.line + 1 }

/-- NewReader + ResetPosition on the fresh struct (reader.go:109-127) -/
def new (src : Bytes) : Reader :=
  advanceLine { source := src, line := -1, peekedLine := none, pos := { start := 0, stop := 0 }, head := 0,
                lineOffset := -1 }

/-- reader.go:122-127 (note: does not touch `pos` before AdvanceLine) -/
def resetPosition (r : Reader) : Reader :=
  advanceLine { r with line := -1, head := 0, lineOffset := -1 }

/-- reader.go:137-145 -/
def peek (r : Reader) : Except Panic UInt8 :=
  if r.pos.start ≥ 0 ∧ r.pos.start < r.sourceLength then
    if r.pos.padding != 0 then pure 32 else getByte r.source r.pos.start
  else pure 255

/-- reader.go:147-155 -/
def peekLine (r : Reader) : Except Panic ((Option Bytes × Segment) × Reader) :=
  if r.pos.start ≥ 0 ∧ r.pos.start < r.sourceLength then
    match r.peekedLine with
    | some l => pure ((some l, r.pos), r)
    | none => do
      let v ← r.pos.value r.source
      pure ((some v, r.pos), { r with peekedLine := some v })
  else pure ((none, r.pos), r)

/-- reader.go:162-175 -/
def lineOffsetOp (r : Reader) : Except Panic (Int × Reader) :=
  if r.lineOffset < 0 then do
    let v ← colLoop r.source r.head r.pos.start
    let lo := (v : Int) - r.pos.padding
    pure (lo, { r with lineOffset := lo })
  else pure (r.lineOffset, r)

/-- reader.go:177-192 -/
def precendingCharacter (r : Reader) : Except Panic Nat :=
  if r.pos.start ≤ 0 then
    if r.pos.padding != 0 then pure 32 else pure 10
  else if r.pos.start - 1 ≥ r.sourceLength then .error .index       -- r.source[i], first iteration
  else
    match runeStartBack r.source r.pos.start.toNat with
    | some i => pure (decodeRune (r.source.drop i)).1
    | none => pure 10                                                 -- `if i < 0` (b999551)

/-- reader.go:203-213, the slow loop of Advance -/
def advanceLoop (r : Reader) : Nat → Except Panic Reader
  | 0 => pure r
  | n + 1 =>
    if r.pos.start < r.sourceLength then
      if r.pos.padding != 0 then
        advanceLoop { r with pos := { r.pos with padding := r.pos.padding - 1 } } n
      else do
        let c ← getByte r.source r.pos.start
        if c == 10 then advanceLoop r.advanceLine n
        else advanceLoop { r with pos := { r.pos with start := r.pos.start + 1 } } n
    else pure r

/-- reader.go:194-214 -/
def advance (n : Int) (r : Reader) : Except Panic Reader :=
  let r := { r with lineOffset := -1 }
  let pl : Int := match r.peekedLine with | some l => l.length | none => 0
  if n < pl ∧ r.pos.padding == 0 then
    pure { r with pos := { r.pos with start := r.pos.start + n }, peekedLine := none }
  else advanceLoop { r with peekedLine := none } n.toNat

/-- reader.go SetPadding (as repaired by 0634ec3: both caches are dropped) -/
def setPadding (v : Int) (r : Reader) : Reader :=
  { r with lineOffset := -1, peekedLine := none, pos := { r.pos with padding := v } }

/-- reader.go:216-221 -/
def advanceAndSetPadding (n padding : Int) (r : Reader) : Except Panic Reader := do
  let r ← advance n r
  if padding > r.pos.padding then pure (setPadding padding r) else pure r

/-- reader.go:243-245 -/
def position (r : Reader) : Int × Segment := (r.line, r.pos)

/-- reader.go:247-256 (as repaired by 5d3f440) -/
def setPosition (line : Int) (pos : Segment) (r : Reader) : Reader :=
  let head := if 0 < pos.start ∧ pos.start ≤ r.sourceLength then (lineStart r.source pos.start.toNat : Int) else pos.start
  { r with lineOffset := -1, peekedLine := none, line := line, pos := pos, head := head }

/-- reader.go:133-135 -/
def valueOp (seg : Segment) (r : Reader) : Except Panic Bytes := seg.value r.source

end Reader

/-! ### the block reader (reader.go:285-498) -/

structure BlockReader where
  source : Bytes
  segments : List Segment
  segmentsLength : Int
  line : Int
  pos : Segment
  head : Int
  last : Int
  lineOffset : Int
  deriving Repr

/-- Segments.At -/
def segAt (l : List Segment) (i : Int) : Except Panic Segment :=
  if i < 0 then .error .index else
    match l[i.toNat]? with
    | some s => .ok s
    | none => .error .index

namespace BlockReader

/-- reader.go:461-477 -/
def setPosition (line : Int) (pos : Segment) (r : BlockReader) : Except Panic BlockReader :=
  let r := { r with lineOffset := -1, line := line }
  if pos.start == -1 then
    if r.line < r.segmentsLength then do
      let s ← segAt r.segments line
      pure { r with head := s.start, pos := s }
    else pure r
  else
    let r := { r with pos := pos }
    if r.line < r.segmentsLength then do
      let s ← segAt r.segments line
      pure { r with head := s.start }
    else pure r

/-- reader.go:452-455 -/
def advanceLine (r : BlockReader) : Except Panic BlockReader := do
  let r ← setPosition (r.line + 1) { start := -1, stop := -1 } r
  pure { r with head := r.pos.start }

/-- reader.go:311-324 -/
def resetPosition (r : BlockReader) : Except Panic BlockReader := do
  let r := { r with line := -1, head := 0, last := 0, lineOffset := -1, pos := { r.pos with start := -1, stop := -1, padding := 0 } }
  let r ← if r.segmentsLength > 0 then do
            let l ← segAt r.segments (r.segmentsLength - 1)
            pure { r with last := l.stop }
          else pure r
  advanceLine r

/-- NewBlockReader with non-nil segments + Reset (reader.go:297-305, 326-330) -/
def new (src : Bytes) (segs : List Segment) : Except Panic BlockReader :=
  resetPosition { source := src, segments := segs, segmentsLength := segs.length, line := 0,
                  pos := { start := 0, stop := 0 }, head := 0, last := 0, lineOffset := 0 }

/-- reader.go:351-353 `for ; i < seg.Stop && i < s.Stop; i++ { ret = append(ret, r.source[i]) }` -/
def copyRange (src : Bytes) (i hi : Int) : Except Panic Bytes :=
  if i ≥ hi then .ok []
  else if i < 0 ∨ hi > src.length then .error .index
  else .ok (sub src i.toNat hi.toNat)

/-- reader.go:339-343: the last line whose Start is ≤ seg.Start, searching down from `line`; -1 if none -/
def valueFindLine (r : BlockReader) (seg : Segment) : Nat → Except Panic Int
  | 0 => pure (-1)
  | k + 1 => do
    let s ← segAt r.segments (k : Int)
    if seg.start ≥ s.start then pure (k : Int) else valueFindLine r seg k

/-- reader.go:345-358: `fuel` = number of lines left -/
def valueLoop (r : BlockReader) (seg : Segment) : Nat → Int → Int → Bytes → Except Panic Bytes
  | 0, _, _, ret => pure ret
  | fuel + 1, line, i, ret => do
    let s ← segAt r.segments line
    let i := if i < 0 then s.start else i
    let ret := if i == s.start then s.concatPadding ret else ret   -- since 96b5bf4: only in front of the line's first byte
    let hi := if seg.stop < s.stop then seg.stop else s.stop
    let part ← copyRange r.source i hi
    let ret := ret ++ part
    if s.stop ≥ seg.stop then pure ret else valueLoop r seg fuel (line + 1) (-1) ret   -- `>=` since 59fcd85

/-- reader.go:336-360 -/
def valueOp (seg : Segment) (r : BlockReader) : Except Panic Bytes := do
  if seg.stop - seg.start + 1 < 0 then throw .explicit               -- makeslice: cap out of range
  let line ← valueFindLine r seg r.segmentsLength.toNat
  valueLoop r seg (r.segmentsLength - line).toNat line seg.start []

/-- reader.go:367-390 -/
def precendingCharacter (r : BlockReader) : Except Panic Nat := do
  if r.pos.padding != 0 then return 32
  if r.segments.length < 1 then return 10
  let first ← segAt r.segments 0
  if r.line == 0 ∧ r.pos.start ≤ first.start then return 10
  let l : Int := r.source.length
  let i := r.pos.start - 1
  if ¬ (i < l ∧ i ≥ 0) then return 10
  match runeStartBack r.source r.pos.start.toNat with
  | some i => pure (decodeRune (r.source.drop i)).1
  | none => pure 10

/-- reader.go:392-405 -/
def lineOffsetOp (r : BlockReader) : Except Panic (Int × BlockReader) :=
  if r.lineOffset < 0 then do
    let v ← colLoop r.source r.head r.pos.start
    let lo := (v : Int) - r.pos.padding
    pure (lo, { r with lineOffset := lo })
  else pure (r.lineOffset, r)

/-- the guard of Peek and PeekLine (reader.go:408, 418) -/
def live (r : BlockReader) : Bool := r.line < r.segmentsLength && r.pos.start ≥ 0 && r.pos.start < r.last

/-- reader.go:407-415 -/
def peek (r : BlockReader) : Except Panic UInt8 :=
  if r.live then
    if r.pos.padding != 0 then pure 32 else getByte r.source r.pos.start
  else pure 255

/-- reader.go:417-422 -/
def peekLine (r : BlockReader) : Except Panic ((Option Bytes × Segment) × BlockReader) :=
  if r.live then do
    let v ← r.pos.value r.source
    pure ((some v, r.pos), r)
  else pure ((none, r.pos), r)

/-- reader.go:432-442 -/
def advanceLoop (r : BlockReader) : Nat → Except Panic BlockReader
  | 0 => pure r
  | n + 1 =>
    if r.pos.padding != 0 then
      advanceLoop { r with pos := { r.pos with padding := r.pos.padding - 1 } } n
    else if r.pos.start ≥ r.pos.stop - 1 ∧ r.pos.stop < r.last then do
      let r ← r.advanceLine
      advanceLoop r n
    else advanceLoop { r with pos := { r.pos with start := r.pos.start + 1 } } n

/-- reader.go:424-443 -/
def advance (n : Int) (r : BlockReader) : Except Panic BlockReader :=
  let r := { r with lineOffset := -1 }
  if n < r.pos.stop - r.pos.start ∧ r.pos.padding == 0 then
    pure { r with pos := { r.pos with start := r.pos.start + n } }
  else advanceLoop r n.toNat

/-- reader.go:479-482 -/
def setPadding (v : Int) (r : BlockReader) : BlockReader :=
  { r with lineOffset := -1, pos := { r.pos with padding := v } }

/-- reader.go:445-450 -/
def advanceAndSetPadding (n padding : Int) (r : BlockReader) : Except Panic BlockReader := do
  let r ← advance n r
  if padding > r.pos.padding then pure (setPadding padding r) else pure r

/-- reader.go:457-459 -/
def position (r : BlockReader) : Int × Segment := (r.line, r.pos)

end BlockReader

/-! ### helpers written against the Reader interface (reader.go:500-665) -/

/-- the part of the Reader interface the helpers use -/
structure Ops (σ : Type) where
  peekLine : σ → Except Panic ((Option Bytes × Segment) × σ)
  advance : Int → σ → Except Panic σ
  advanceLine : σ → Except Panic σ
  position : σ → Int × Segment
  setPosition : Int → Segment → σ → Except Panic σ

def readerOps : Ops Reader where
  peekLine := Reader.peekLine
  advance := Reader.advance
  advanceLine := fun r => pure r.advanceLine
  position := Reader.position
  setPosition := fun l p r => pure (Reader.setPosition l p r)

def blockOps : Ops BlockReader where
  peekLine := BlockReader.peekLine
  advance := BlockReader.advance
  advanceLine := BlockReader.advanceLine
  position := BlockReader.position
  setPosition := BlockReader.setPosition

variable {σ : Type}

/-- skipBlankLinesReader (reader.go:500-514): (segment, lines, ok) -/
def skipBlankLines (o : Ops σ) : Nat → Int → σ → Except Panic ((Segment × Int × Bool) × σ)
  | 0, _, _ => .error .loop
  | fuel + 1, lines, s => do
    let ((line, seg), s) ← o.peekLine s
    match line with
    | none => pure ((seg, lines, false), s)
    | some l =>
      if isBlank l then do
        let s ← o.advanceLine s
        skipBlankLines o fuel (lines + 1) s
      else pure ((seg, lines, true), s)

/-- the `for i, c := range line` of skipSpacesReader (reader.go:523-530): `some` = returned from inside -/
def skipSpacesLine (o : Ops σ) (segment : Segment) : Bytes → Int → Int → σ →
    Except Panic (Option (Segment × Int × Bool) × Int × σ)
  | [], _, chars, s => pure (none, chars, s)
  | c :: cs, i, chars, s =>
    if isSpace c then do
      let s ← o.advance 1 s
      skipSpacesLine o segment cs (i + 1) (chars + 1) s
    else pure (some (segment.withStart (segment.start + i + 1), chars, true), chars, s)

/-- skipSpacesReader (reader.go:516-532) -/
def skipSpaces (o : Ops σ) : Nat → Int → σ → Except Panic ((Segment × Int × Bool) × σ)
  | 0, _, _ => .error .loop
  | fuel + 1, chars, s => do
    let ((line, segment), s) ← o.peekLine s
    match line with
    | none => pure ((segment, chars, false), s)
    | some l => do
      let (res, chars, s) ← skipSpacesLine o segment l 0 chars s
      match res with
      | some r => pure (r, s)
      | none => skipSpaces o fuel chars s

/-- readRuneReader (reader.go:574-585): (rune, size, err ≠ nil) -/
def readRune (o : Ops σ) (s : σ) : Except Panic ((Nat × Nat × Bool) × σ) := do
  let ((line, _), s) ← o.peekLine s
  match line with
  | none => pure ((0, 0, true), s)
  | some l =>
    let (rn, size) := decodeRune l
    if rn == runeError then pure ((0, 0, true), s)
    else do
      let s ← o.advance size s
      pure ((rn, size, false), s)

structure FindClosureOptions where
  codeSpan : Bool
  nesting : Bool
  newline : Bool
  advance : Bool

/-- how the scan of one line (reader.go:599-647) ends -/
inductive Scan
  | found (i : Nat)                 -- the closer that balances the opener, at index i
  | stop                            -- an opener without Nesting: `goto end`
  | eol (opened cso : Nat)          -- line exhausted

/-- reader.go:600-647 over the rest of the line `rest = bs[i:]` -/
def scanLine (opener closer : UInt8) (codeSpan nesting : Bool) : Bytes → Nat → Nat → Nat → Scan
  | [], _, opened, cso => .eol opened cso
  | c :: rest, i, opened, cso =>
    if codeSpan && cso != 0 && c == 96 then
      -- count the run of back-ticks starting here (the run is never empty)
      let run := (spanB (· == 96) rest)
      let n := run.1.length + 1
      scanLine opener closer codeSpan nesting run.2 (i + n) opened (if n == cso then 0 else cso)
    else if cso == 0 && c == 92 && (match rest with | d :: _ => isPunct d | [] => false) then
      scanLine opener closer codeSpan nesting (rest.drop 1) (i + 2) opened cso
    else if codeSpan && cso == 0 && c == 96 then
      let run := (spanB (· == 96) rest)
      scanLine opener closer codeSpan nesting run.2 (i + run.1.length + 1) opened (run.1.length + 1)
    else if (codeSpan && cso == 0) || !codeSpan then
      if c == closer then
        if opened - 1 == 0 then .found i
        else scanLine opener closer codeSpan nesting rest (i + 1) (opened - 1) cso
      else if c == opener then
        if !nesting then .stop
        else scanLine opener closer codeSpan nesting rest (i + 1) (opened + 1) cso
      else scanLine opener closer codeSpan nesting rest (i + 1) opened cso
    else scanLine opener closer codeSpan nesting rest (i + 1) opened cso
termination_by l => l.length
decreasing_by
  all_goals simp_wf
  all_goals first
    | omega
    | (have := spanB_len (· == 96) rest; omega)
    | (cases rest <;> simp <;> omega)

/-- the `for` loop of findClosureReader (reader.go:594-656): (ret, closed). `i` indexes the peeked line, which starts
    with `seg.padding` virtual spaces: the stop of the closing segment is `Start + i - Padding` (repair 9e57c92) -/
def findClosureLoop (o : Ops σ) (opener closer : UInt8) (opts : FindClosureOptions) :
    Nat → Nat → Nat → Option (List Segment) → σ → Except Panic ((Option (List Segment) × Bool) × σ)
  | 0, _, _, _, _ => .error .loop
  | fuel + 1, opened, cso, ret, s => do
    let ((bs, seg), s) ← o.peekLine s
    match bs with
    | none => pure ((ret, false), s)
    | some bs =>
      match scanLine opener closer opts.codeSpan opts.nesting bs 0 opened cso with
      | .found i => do
        let ret := (ret.getD []) ++ [seg.withStop (seg.start + i - seg.padding)]
        let s ← o.advance (i + 1) s
        pure ((some ret, true), s)
      | .stop => pure ((ret, false), s)
      | .eol opened cso =>
        if !opts.newline then pure ((ret, false), s)
        else do
          let s ← o.advanceLine s
          findClosureLoop o opener closer opts fuel opened cso (some ((ret.getD []) ++ [seg])) s

/-- findClosureReader (reader.go:587-665): (segments or nil, found) -/
def findClosure (o : Ops σ) (fuel : Nat) (opener closer : UInt8) (opts : FindClosureOptions) (s : σ) :
    Except Panic ((Option (List Segment) × Bool) × σ) :=
  let org := o.position s                                                -- orgline, orgpos
  findClosureLoop o opener closer opts fuel 1 0 none s >>= fun x =>      -- x = ((ret, closed), state)
  (if !opts.advance then o.setPosition org.1 org.2 x.2 else pure x.2) >>= fun s' =>
  if x.1.2 then pure ((x.1.1, true), s') else pure ((none, false), s')

/-- fuel that covers every loop above on any state the harness can build -/
def loopFuel (src : Bytes) : Nat := 4 * src.length + 64

/-! ### one call as a step of a state machine (what the driver executes and the theorems speak about) -/

/-- the calls of the Reader interface that C18 speaks about -/
inductive Op
  | peek | peekLine | advance (n : Int) | advanceAndSetPadding (n pad : Int) | advanceLine | position
  | setPosition (line : Int) (seg : Segment) | setPadding (v : Int) | lineOffset | value (seg : Segment)
  | skipSpaces | skipBlankLines | readRune
  | findClosure (opener closer : UInt8) (opts : FindClosureOptions)
  | precendingCharacter | resetPosition

/-- everything a call returns -/
inductive Out
  | unit | byte (b : UInt8) | line (l : Option Bytes) (s : Segment) | pos (l : Int) (s : Segment)
  | int (v : Int) | bytes (b : Bytes) | skip (r : Segment × Int × Bool) | rune (r : Nat × Nat × Bool)
  | closure (r : Option (List Segment) × Bool) | char (r : Nat)


def Reader.step (r : Reader) : Op → Except Panic (Out × Reader)
  | .peek => do let b ← r.peek; pure (.byte b, r)
  | .peekLine => do let ((l, s), r) ← r.peekLine; pure (.line l s, r)
  | .advance n => do let r ← r.advance n; pure (.unit, r)
  | .advanceAndSetPadding n pad => do let r ← r.advanceAndSetPadding n pad; pure (.unit, r)
  | .advanceLine => pure (.unit, r.advanceLine)
  | .position => let p := r.position; pure (.pos p.1 p.2, r)
  | .setPosition l s => pure (.unit, r.setPosition l s)
  | .setPadding v => pure (.unit, r.setPadding v)
  | .lineOffset => do let (v, r) ← r.lineOffsetOp; pure (.int v, r)
  | .value s => do let v ← r.valueOp s; pure (.bytes v, r)
  | .skipSpaces => do let (x, r) ← skipSpaces readerOps (loopFuel r.source) 0 r; pure (.skip x, r)
  | .skipBlankLines => do let (x, r) ← skipBlankLines readerOps (loopFuel r.source) 0 r; pure (.skip x, r)
  | .readRune => do let (x, r) ← readRune readerOps r; pure (.rune x, r)
  | .findClosure o c opts => do let (x, r) ← findClosure readerOps (loopFuel r.source) o c opts r; pure (.closure x, r)
  | .precendingCharacter => do let v ← r.precendingCharacter; pure (.char v, r)
  | .resetPosition => pure (.unit, r.resetPosition)

def BlockReader.step (r : BlockReader) : Op → Except Panic (Out × BlockReader)
  | .peek => do let b ← r.peek; pure (.byte b, r)
  | .peekLine => do let ((l, s), r) ← r.peekLine; pure (.line l s, r)
  | .advance n => do let r ← r.advance n; pure (.unit, r)
  | .advanceAndSetPadding n pad => do let r ← r.advanceAndSetPadding n pad; pure (.unit, r)
  | .advanceLine => do let r ← r.advanceLine; pure (.unit, r)
  | .position => let p := r.position; pure (.pos p.1 p.2, r)
  | .setPosition l s => do let r ← r.setPosition l s; pure (.unit, r)
  | .setPadding v => pure (.unit, r.setPadding v)
  | .lineOffset => do let (v, r) ← r.lineOffsetOp; pure (.int v, r)
  | .value s => do let v ← r.valueOp s; pure (.bytes v, r)
  | .skipSpaces => do let (x, r) ← skipSpaces blockOps (loopFuel r.source) 0 r; pure (.skip x, r)
  | .skipBlankLines => do let (x, r) ← skipBlankLines blockOps (loopFuel r.source) 0 r; pure (.skip x, r)
  | .readRune => do let (x, r) ← readRune blockOps r; pure (.rune x, r)
  | .findClosure o c opts => do let (x, r) ← findClosure blockOps (loopFuel r.source) o c opts r; pure (.closure x, r)
  | .precendingCharacter => do let v ← r.precendingCharacter; pure (.char v, r)
  | .resetPosition => do let r ← r.resetPosition; pure (.unit, r)

/-- a whole call sequence: the outputs so far and the final state, or the first panic -/
def runSteps {σ : Type} (step : σ → Op → Except Panic (Out × σ)) : σ → List Op → Except Panic (List Out × σ)
  | s, [] => pure ([], s)
  | s, op :: rest => do
    let (o, s) ← step s op
    let (os, s) ← runSteps step s rest
    pure (o :: os, s)

end GM.Text
