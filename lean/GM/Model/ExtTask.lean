/-
  GM.Model.ExtTask — the ACCEPT path of extension.TaskList (extension/tasklist.go:34-59, (*taskCheckBoxParser).Parse) on
  the concrete inline model. The decision is GM.Ext.taskParse's (GM.Model.ExtDecline, tied by component `extdecline`);
  here it is a parser of the concrete loop: it reads `parent`'s children and the block reader and advances the reader.

    tasklist.go:39-49   `parent.Parent() == nil || parent.Parent().FirstChild() != parent`, `parent.HasChildren()`,
                        `parent.Parent().(*gast.ListItem)`: the first and the third test are facts of the block tree
                        (`inItem`, computed by GM.ConvertX.docTreeX from the block phase's tree); `HasChildren` is read
                        off the children built so far (`st.kids`: Text, delimiters and labels are all children of `parent`)
    tasklist.go:50-58   `taskListRegexp = ^\[([\sxX])\]\s*` hand-matched on the peeked line (RE2 `\s` = [\t\n\f\r ];
                        the trailing `\s*` also takes the line's newline), `block.Advance(m[1])`

  ENCODING. GM.Inl.Node has no TaskCheckBox constructor: `ast.NewTaskCheckBox(checked)` (a leaf) is represented as
  `.emphasis (-1) []` (unchecked) / `.emphasis (-2) []` (checked) — levels the emphasis processor never builds —
  and decoded by GM.ConvertX.inlineTreeX. Core Lean only.
-/
import GM.Model.InlinesLoopX
import GM.Model.ExtDecline

namespace GM.Inl
open GM GM.Text

/-- the representation of `ast.NewTaskCheckBox(checked)` -/
def taskNode (checked : Bool) : Node := .emphasis (if checked then -2 else -1) []

/-- (*taskCheckBoxParser).Parse; `inItem` = `parent.Parent()` is a ListItem whose first child is `parent` -/
def parseTask (inItem : Bool) (_env : Env) (st : St) : PRes :=
  if !inItem then .ok (none, st)
  else if !st.kids.isEmpty then .ok (none, st)                        -- `parent.HasChildren()`
  else do
    let ((line, _), rd) ← st.rd.peekLine
    let st := { st with rd := rd }
    match line.getD [] with
    | 91 :: v :: 93 :: rest =>
      if GM.Ext.reSpace v || v == 120 || v == 88 then
        let rd ← st.rd.advance (3 + (rest.takeWhile GM.Ext.reSpace).length : Nat)
        pure (some (taskNode (v == 120 || v == 88)), { st with rd := rd })
      else pure (none, st)
    | _ => pure (none, st)

/-- extension.NewTaskCheckBoxParser(): Trigger() = {'['} -/
def taskParser (inItem : Bool) : XParser := { triggers := [91], parse := parseTask inItem }

end GM.Inl
